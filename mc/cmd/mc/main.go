// Command mc is the driver of the /verif model-checking machinery.
//
//	mc check <Cxx> <quick|thorough>
//	mc replay <file>
//	mc worker ...            (internal)
package main

import (
	"fmt"
	"os"

	"verifmc/internal/core"
	_ "verifmc/internal/scen"
)

func main() {
	if len(os.Args) < 2 {
		fmt.Println("usage: mc check <id> <tier> | mc replay <file> | mc list")
		os.Exit(2)
	}
	switch os.Args[1] {
	case "check":
		if len(os.Args) < 4 {
			os.Exit(2)
		}
		os.Exit(core.CheckMain(os.Args[2], os.Args[3]))
	case "replay":
		os.Exit(core.ReplayMain(os.Args[2]))
	case "worker":
		os.Exit(core.WorkerMain(os.Args[2:]))
	case "list":
		for _, id := range core.IDs() {
			fmt.Println(id)
		}
	default:
		os.Exit(2)
	}
}
