// Command mcrace is the free-running net of C16: the same concurrent harness bodies as the
// schedule explorer, run natively (no overlay, no scheduler) under the Go race detector.
// Built with `go build -race -tags verif`. It samples schedules by nature; the exhaustive part
// is cmd/mcs.
//
//	mcrace <rounds> <seed> <out.json>
//
// A data race makes the race detector print a report on stderr and the process exit with
// status 66 (GORACE default); run.sh records that.
package main

import (
	"encoding/json"
	"fmt"
	"os"
	"runtime"
	"strconv"
	"sync"

	"verifmc/internal/conc"
	"verifmc/internal/scen"
)

func main() {
	rounds, _ := strconv.Atoi(os.Args[1])
	seed, _ := strconv.ParseInt(os.Args[2], 10, 64)
	out := os.Args[3]
	runtime.GOMAXPROCS(16)
	php32 := [][]int{{1, 2}, {3, 4}, {5, 6}, {-1, -3}, {-1, -5}, {-3, -5}, {-2, -4}, {-2, -6}, {-4, -6}}
	var formulas [][][]int
	var ns []int
	formulas = append(formulas, php32)
	ns = append(ns, 6)
	scen.FamM(seed, "quick", func(name string, f [][]int, n int) bool {
		if n <= 12 && len(formulas) < 400 {
			formulas = append(formulas, f)
			ns = append(ns, n)
		}
		return true
	})
	kinds := []string{"solve-cert", "count", "optimal", "maxsat", "mus", "subset", "bf", "bf-dnf", "solve-cp"}
	mismatches := 0
	groups := 0
	streams := 0
	for r := 0; r < rounds; r++ {
		// 4 concurrent tasks on formulas picked round-robin, every kind in turn
		var ts []conc.Task
		for k := 0; k < 4; k++ {
			i := (r*4 + k) % len(formulas)
			kind := kinds[(r+k)%len(kinds)]
			if r < len(kinds) {
				// the first rounds run four tasks of the SAME kind: lazily initialised package-level
				// state of that code path is still cold, so its first use is concurrent
				kind = kinds[r]
			}
			t := conc.Task{Kind: kind, F: formulas[i], N: ns[i]}
			if t.Kind == "optimal" {
				for v := 1; v <= ns[i]; v++ {
					t.Cost = append(t.Cost, v)
				}
			}
			if t.Kind == "solve-cp" {
				t.F, t.N = nil, 4 // pigeonhole with 4 holes
			}
			if t.Kind == "count" && ns[i] > 8 {
				t.Kind = "solve-cert"
			}
			ts = append(ts, t)
		}
		// concurrent run first: lazily initialised package-level state is still cold in round 0
		got, _ := conc.RunTogether(ts)
		solo := make([]string, len(ts))
		for i, t := range ts {
			solo[i] = t.Run()
		}
		groups++
		for i := range ts {
			if got[i] != solo[i] {
				mismatches++
				fmt.Fprintf(os.Stderr, "MISMATCH task %v: together %q alone %q\n", ts[i].Kind, got[i], solo[i])
			}
		}
		// calls with internal goroutines, several at once
		var wg sync.WaitGroup
		for k := 0; k < 3; k++ {
			i := (r*3 + k) % len(formulas)
			if ns[i] > 8 {
				continue
			}
			wg.Add(1)
			go func(k, i int) {
				defer wg.Done()
				kind := []string{"optimal", "enumerate"}[k%2]
				c := conc.StreamCase{Kind: kind, F: formulas[i], N: ns[i], Cap: k % 3}
				if kind == "optimal" {
					for v := 1; v <= ns[i]; v++ {
						c.Cost = append(c.Cost, v)
					}
				}
				conc.RunStream(c)
			}(k, i)
			streams++
		}
		wg.Wait()
	}
	res := map[string]interface{}{"rounds": rounds, "task_groups": groups, "stream_calls": streams, "observation_mismatches": mismatches,
		"formulas": len(formulas), "gomaxprocs": 16, "note": "sampling by nature: schedules are whatever the Go runtime produced"}
	b, _ := json.Marshal(res)
	os.WriteFile(out, b, 0o644)
	if mismatches > 0 {
		os.Exit(67)
	}
}
