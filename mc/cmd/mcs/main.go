// Command mcs is the schedule-exploration driver (E3). It is built with
// `-tags "verif e3" -overlay <overlay.json>` so that the library's concurrency operations go
// through the vsched shim.
package main

import (
	"fmt"
	"os"

	"verifmc/internal/core"
	_ "verifmc/internal/sscen"
)

func main() {
	if len(os.Args) < 2 {
		os.Exit(2)
	}
	switch os.Args[1] {
	case "check":
		os.Exit(core.CheckMain(os.Args[2], os.Args[3]))
	case "replay":
		os.Exit(core.ReplayMain(os.Args[2]))
	case "worker":
		os.Exit(core.WorkerMain(os.Args[2:]))
	default:
		fmt.Println("usage: mcs check <id> <tier> | replay <file>")
		os.Exit(2)
	}
}
