// Package choice is the heuristic-choice explorer (E2): it owns the answers of the
// solver's heuristic "environment" (next decision variable and polarity, restart now,
// reduce the learned-clause database now) through the verif hooks, and enumerates
// them by deviation-bounded depth-first search, re-running the real code from a
// fresh instance for every choice list (stateless exploration).
package choice

import (
	"github.com/crillab/gophersat/solver"
)

// Opts configures one exploration.
type Opts struct {
	MaxDev     int         // maximum number of non-default choices per execution
	MaxEnv     int         // maximum number of forced restarts+reductions per execution (<=MaxDev)
	MaxRuns    int         // cap on executions for one case (0 = 20000); hitting it is reported
	Stop       func() bool // polled between executions; true abandons the exploration (reported as capped)
	StepBudget int         // maximum number of choice points per execution (termination oracle)
	NbMax      int         // >0: small learned-clause-database limit: reduce whenever this many learned clauses are stored
	Decisions  bool        // offer decision (variable, polarity) alternatives
	MaxDecVars int         // offer at most this many unbound variables (0 = all)
	Restarts   bool
	Reduces    bool
}

// Default options used by most scenarios.
func Std(maxDev int) Opts {
	o := Opts{MaxDev: maxDev, MaxEnv: maxDev, StepBudget: 20000, Decisions: true, Restarts: true, Reduces: true}
	if maxDev > 2 { // "all decision orders": unbounded in decisions, one forced restart/reduction
		o.MaxEnv = 1
	}
	return o
}

type point struct {
	nalt   int
	chosen int
}

// Ctl is the controller installed in the solver for one execution.
type Ctl struct {
	opts   Opts
	prefix []int
	pos    int
	Points []point
	// statistics of this execution
	Restarts, Reduces, Steered, Ineffective int
	CfgReduces                              int
	OnLearnedPB                             func(s *solver.Solver, c *solver.Clause, units []solver.Lit, lvl int)
	OnNew                                   func(s *solver.Solver)
	OnState                                 func(h uint64)
	pendingVar                              int
	pendingNeg                              bool
	Diverged                                bool
}

func (c *Ctl) New(s *solver.Solver) {
	if c.OnNew != nil {
		c.OnNew(s)
	}
}

func (c *Ctl) LearnedPB(s *solver.Solver, cl *solver.Clause, units []solver.Lit, lvl int) {
	if c.OnLearnedPB != nil {
		c.OnLearnedPB(s, cl, units, lvl)
	}
}

// Point is called by the hook at every choice point.
func (c *Ctl) Point(v *solver.VerifView) solver.VerifChoice {
	if len(c.Points) >= c.opts.StepBudget {
		panic(solver.VerifAbort{Reason: "step budget exceeded"})
	}
	if c.OnState != nil {
		c.OnState(v.Hash)
	}
	// alternatives: 0 default | restart | reduce | (var,pos),(var,neg)...
	nalt := 1
	restartAlt, reduceAlt, decBase := -1, -1, -1
	envLeft := c.Restarts+c.Reduces < c.opts.MaxEnv
	if c.opts.Restarts && v.Kind != 0 && envLeft {
		restartAlt = nalt
		nalt++
	}
	if c.opts.Reduces && v.CanReduce && envLeft {
		reduceAlt = nalt
		nalt++
	}
	ndec := 0
	if c.opts.Decisions {
		ndec = len(v.Unbound)
		if c.opts.MaxDecVars > 0 && ndec > c.opts.MaxDecVars {
			ndec = c.opts.MaxDecVars
		}
		decBase = nalt
		nalt += 2 * ndec
	}
	ch := 0
	if c.pos < len(c.prefix) {
		ch = c.prefix[c.pos]
		if ch >= nalt {
			// The prefix was recorded on an identical execution: this cannot happen
			// unless some nondeterminism is not owned.
			c.Diverged = true
			ch = 0
		}
	}
	c.pos++
	c.Points = append(c.Points, point{nalt: nalt, chosen: ch})
	res := solver.VerifChoice{Var: -1}
	if c.opts.NbMax < 0 {
		// configuration "tight limit": the limit follows the size of the database (never below 1, and
		// the default while the database is empty so that no reduction runs on an empty database);
		// the real code then reduces at every opportunity and always sees a full database
		if v.NbLearned >= 1 {
			res.SetNbMax = v.NbLearned
		} else {
			res.SetNbMax = 2000
		}
	}
	if c.opts.NbMax > 0 && v.CanReduce && v.NbLearned >= c.opts.NbMax {
		// configuration "small learned-clause limit": reduce as soon as the limit is reached
		res.Reduce = true
		c.CfgReduces++
	}
	switch {
	case ch == 0:
	case ch == restartAlt:
		res.Restart = true
		c.Restarts++
	case ch == reduceAlt:
		res.Reduce = true
		c.Reduces++
	case decBase >= 0 && ch >= decBase:
		k := ch - decBase
		res.Var = v.Unbound[k/2]
		res.Neg = k%2 == 1
		c.Steered++
	}
	return res
}

// Result of one execution as seen by the explorer.
type Exec struct {
	Choices []int
	Ctl     *Ctl
}

// Stats of one exploration.
type Stats struct {
	Runs        int
	Points      int
	MaxPoints   int
	Restarts    int
	Reduces     int
	Steered     int
	Capped      bool
	Diverged    bool
	NonDefault  int // executions with at least one non-default choice
	SampleTrace []int
}

// Explore runs `run` once per choice list. run must build everything fresh, install
// nothing itself (Explore installs the controller), and return true to continue.
// replay != nil: run exactly that choice list once.
func Explore(o Opts, replay []int, run func(c *Ctl, choices []int) bool) Stats {
	var st Stats
	if o.StepBudget == 0 {
		o.StepBudget = 20000
	}
	maxRuns := o.MaxRuns
	if maxRuns == 0 {
		maxRuns = 20000
	}
	stop := false
	one := func(prefix []int) *Ctl {
		c := &Ctl{opts: o, prefix: prefix}
		solver.VerifSetController(c)
		defer solver.VerifSetController(nil)
		st.Runs++
		if !run(c, prefix) {
			stop = true
		}
		st.Points += len(c.Points)
		if len(c.Points) > st.MaxPoints {
			st.MaxPoints = len(c.Points)
		}
		st.Restarts += c.Restarts
		st.Reduces += c.Reduces
		st.Steered += c.Steered
		if c.Diverged {
			st.Diverged = true
		}
		if len(prefix) > 0 {
			st.NonDefault++
			if st.SampleTrace == nil {
				st.SampleTrace = append([]int{}, prefix...)
			}
		}
		return c
	}
	if replay != nil {
		one(replay)
		return st
	}
	var rec func(prefix []int, dev int)
	rec = func(prefix []int, dev int) {
		if stop {
			return
		}
		if st.Runs >= maxRuns || (o.Stop != nil && st.Runs&15 == 0 && o.Stop()) {
			st.Capped = true
			stop = true
			return
		}
		c := one(prefix)
		if dev >= o.MaxDev {
			return
		}
		pts := c.Points
		for i := len(prefix); i < len(pts); i++ {
			for alt := 1; alt < pts[i].nalt; alt++ {
				if stop {
					return
				}
				np := make([]int, i+1)
				for k := 0; k < i; k++ {
					np[k] = pts[k].chosen
				}
				np[i] = alt
				rec(np, dev+1)
			}
		}
	}
	rec([]int{}, 0)
	return st
}
