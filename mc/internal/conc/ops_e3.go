//go:build e3

package conc

import "github.com/crillab/gophersat/vsched"

// Harness-side concurrency operations, routed to the schedule explorer's shim.

func xGo(f func())                     { vsched.Go(f) }
func xSend[T any](ch chan T, v T)      { vsched.Send(ch, v) }
func xRecv[T any](ch chan T) (T, bool) { return vsched.Recv(ch) }
func xClose[T any](ch chan T)          { vsched.Close(ch) }
func xIsClosed[T any](ch chan T) bool  { return vsched.IsClosed(ch) }

const Controlled = true
