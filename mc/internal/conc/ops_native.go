//go:build !e3

package conc

// Harness-side concurrency operations, native (free-running -race pass).

func xGo(f func())                     { go f() }
func xSend[T any](ch chan T, v T)      { ch <- v }
func xRecv[T any](ch chan T) (T, bool) { v, ok := <-ch; return v, ok }
func xClose[T any](ch chan T)          { close(ch) }
func xIsClosed[T any](ch chan T) bool  { return true } // not observable natively

const Controlled = false
