// Package conc holds the concurrent harness bodies shared by the schedule explorer (build tag
// e3, library rewritten through the overlay) and the free-running -race pass (native build).
package conc

import (
	"fmt"
	"sort"
	"strings"

	"github.com/crillab/gophersat/bf"
	"github.com/crillab/gophersat/explain"
	"github.com/crillab/gophersat/maxsat"
	"github.com/crillab/gophersat/solver"
)

// Task is one data-independent use of the library; Run returns its complete observation.
type Task struct {
	Kind string  `json:"kind"` // solve-cert | count | optimal | maxsat | mus | bf | subset
	F    [][]int `json:"f"`
	N    int     `json:"n"`
	Cost []int   `json:"cost,omitempty"`
}

func cp(f [][]int) [][]int {
	r := make([][]int, len(f))
	for i := range f {
		r[i] = append([]int{}, f[i]...)
	}
	return r
}

func dimacs(f [][]int, n int) string {
	var sb strings.Builder
	fmt.Fprintf(&sb, "p cnf %d %d\n", n, len(f))
	for _, c := range f {
		for _, l := range c {
			fmt.Fprintf(&sb, "%d ", l)
		}
		sb.WriteString("0\n")
	}
	return sb.String()
}

// sat evaluates a CNF under a model.
func satisfies(f [][]int, m []bool) bool {
	for _, c := range f {
		ok := false
		for _, l := range c {
			v := l
			if v < 0 {
				v = -v
			}
			if v <= len(m) && (l > 0) == m[v-1] {
				ok = true
				break
			}
		}
		if !ok {
			return false
		}
	}
	return true
}

// bruteSat decides a CNF over n <= 20 variables by enumeration.
func bruteSat(f [][]int, n int) bool {
	m := make([]bool, n)
	for a := 0; a < 1<<uint(n); a++ {
		for i := range m {
			m[i] = a>>uint(i)&1 == 1
		}
		if satisfies(f, m) {
			return true
		}
	}
	return false
}

// musOK: sub-multiset of f, unsatisfiable, and (if minimal) no clause can be dropped.
func musOK(f, mus [][]int, n int, minimal bool) bool {
	cnt := map[string]int{}
	for _, c := range f {
		cnt[fmt.Sprint(c)]++
	}
	for _, c := range mus {
		k := fmt.Sprint(c)
		if cnt[k] == 0 {
			return false
		}
		cnt[k]--
	}
	if bruteSat(mus, n) {
		return false
	}
	if minimal {
		for i := range mus {
			rest := append(append([][]int{}, mus[:i]...), mus[i+1:]...)
			if !bruteSat(rest, n) {
				return false
			}
		}
	}
	return true
}

// Run executes the task and returns its semantic observation: what the property says must be
// the same as in a solo run (verdict, validity of the model, count, optimum, validity of the MUS).
// RunRaw additionally returns the complete textual observation (exact model, learned-clause trace,
// statistics), which is compared for information only. Panics are part of the observation.
func (t Task) Run() string {
	sem, _ := t.RunRaw()
	return sem
}

func (t Task) RunRaw() (obs string, raw string) {
	defer func() {
		if e := recover(); e != nil {
			obs = fmt.Sprintf("PANIC %v", e)
			raw = obs
		}
	}()
	switch t.Kind {
	case "solve-cert":
		pb := solver.ParseSliceNb(cp(t.F), t.N)
		s := solver.New(pb)
		ch := make(chan string, 512)
		s.Certified = true
		s.CertChan = ch
		st := s.Solve()
		var lines []string
		xClose(ch)
		for {
			l, ok := xRecv(ch)
			if !ok {
				break
			}
			lines = append(lines, l)
		}
		m := ""
		valid := true
		if st == solver.Sat {
			m = fmt.Sprint(s.Model())
			valid = satisfies(t.F, s.Model())
		}
		return fmt.Sprintf("%v model-valid=%v", st, valid), fmt.Sprintf("%v %s cert=%v stats=%+v", st, m, lines, s.Stats)
	case "solve-cp":
		// pigeonhole PHP(N+1, N) in clausal form, solved with cutting planes and a small limit on the learned-constraint
		// database, so that learned PB constraints are deleted during the run (N=4: 28 conflicts, 3 deletions)
		holes := t.N
		var f [][]int
		v := func(p, h int) int { return p*holes + h + 1 }
		for p := 0; p <= holes; p++ {
			var l []int
			for h := 0; h < holes; h++ {
				l = append(l, v(p, h))
			}
			f = append(f, l)
		}
		for h := 0; h < holes; h++ {
			for p := 0; p <= holes; p++ {
				for q := p + 1; q <= holes; q++ {
					f = append(f, []int{-v(p, h), -v(q, h)})
				}
			}
		}
		s := solver.New(solver.ParseSlice(f))
		s.CuttingPlanes = true
		s.VerifSetNbMax(4)
		st := s.Solve()
		return fmt.Sprintf("%v deleted-some=%v", st, s.Stats.NbDeleted > 0), fmt.Sprintf("%v stats=%+v", st, s.Stats)
	case "count":
		pb := solver.ParseSliceNb(cp(t.F), t.N)
		o := fmt.Sprintf("count=%d", solver.New(pb).CountModels())
		return o, o
	case "optimal":
		pb := solver.ParseSliceNb(cp(t.F), t.N)
		lits := make([]solver.Lit, len(t.Cost))
		for i, l := range t.Cost {
			lits[i] = solver.IntToLit(int32(l))
		}
		pb.SetCostFunc(lits, nil)
		r := solver.New(pb).Optimal(nil, nil)
		valid := r.Status != solver.Sat || satisfies(t.F, r.Model)
		return fmt.Sprintf("%v cost=%d model-valid=%v", r.Status, r.Weight, valid), fmt.Sprintf("%v %v %d", r.Status, r.Model, r.Weight)
	case "maxsat":
		var cs []maxsat.Constr
		for i, c := range t.F {
			lits := make([]maxsat.Lit, len(c))
			for j, l := range c {
				if l > 0 {
					lits[j] = maxsat.Var(fmt.Sprintf("v%d", l))
				} else {
					lits[j] = maxsat.Not(fmt.Sprintf("v%d", -l))
				}
			}
			if i%2 == 0 {
				cs = append(cs, maxsat.HardClause(lits...))
			} else {
				cs = append(cs, maxsat.WeightedClause(lits, 1+i%3))
			}
		}
		m, cost := maxsat.New(cs...).Solve()
		keys := make([]string, 0, len(m))
		for k, v := range m {
			keys = append(keys, fmt.Sprintf("%s=%v", k, v))
		}
		sort.Strings(keys)
		return fmt.Sprintf("cost=%d sat=%v", cost, m != nil), fmt.Sprintf("cost=%d model=%v", cost, keys)
	case "mus", "subset":
		pb, err := explain.ParseCNF(strings.NewReader(dimacs(t.F, t.N)))
		if err != nil {
			return "parse error " + err.Error(), ""
		}
		var res *explain.Problem
		if t.Kind == "mus" {
			res, err = pb.MUS()
		} else {
			res, err = pb.UnsatSubset()
		}
		if err != nil {
			return "err " + err.Error(), "err"
		}
		return fmt.Sprintf("%s-valid=%v", t.Kind, musOK(t.F, res.Clauses, t.N, t.Kind == "mus")), fmt.Sprintf("mus=%v", res.Clauses)
	case "bf":
		var cl []bf.Formula
		for _, c := range t.F {
			var ls []bf.Formula
			for _, l := range c {
				if l > 0 {
					ls = append(ls, bf.Var(fmt.Sprintf("v%d", l)))
				} else {
					ls = append(ls, bf.Not(bf.Var(fmt.Sprintf("v%d", -l))))
				}
			}
			cl = append(cl, bf.Or(ls...))
		}
		m := bf.Solve(bf.And(cl...))
		keys := make([]string, 0, len(m))
		for k, v := range m {
			keys = append(keys, fmt.Sprintf("%s=%v", k, v))
		}
		sort.Strings(keys)
		valid := true
		if m != nil {
			mm := make([]bool, t.N)
			for i := range mm {
				mm[i] = m[fmt.Sprintf("v%d", i+1)]
			}
			valid = satisfies(t.F, mm)
		}
		return fmt.Sprintf("sat=%v model-valid=%v", m != nil, valid), fmt.Sprintf("bf=%v sat=%v", keys, m != nil)
	case "bf-dnf":
		// a formula that is not in CNF shape (disjunction of conjunctions, plus an exactly-one group of
		// 5 names): the translation needs auxiliary variables
		var cubes []bf.Formula
		for _, c := range t.F {
			var ls []bf.Formula
			for _, l := range c {
				if l > 0 {
					ls = append(ls, bf.Var(fmt.Sprintf("v%d", l)))
				} else {
					ls = append(ls, bf.Not(bf.Var(fmt.Sprintf("v%d", -l))))
				}
			}
			cubes = append(cubes, bf.And(ls...))
		}
		f := bf.And(bf.Or(cubes...), bf.Unique("u1", "u2", "u3", "u4", "u5"))
		m := bf.Solve(f)
		// reference: satisfiable iff some cube has no complementary pair
		sat := false
		for _, c := range t.F {
			ok := true
			seen := map[int]bool{}
			for _, l := range c {
				if seen[-l] {
					ok = false
				}
				seen[l] = true
			}
			if ok {
				sat = true
			}
		}
		valid := true
		if m != nil {
			valid = false
			for _, c := range t.F {
				all := true
				for _, l := range c {
					v := l
					if v < 0 {
						v = -v
					}
					if m[fmt.Sprintf("v%d", v)] != (l > 0) {
						all = false
					}
				}
				if all {
					valid = true
				}
			}
			nu := 0
			for _, u := range []string{"u1", "u2", "u3", "u4", "u5"} {
				if m[u] {
					nu++
				}
			}
			if nu != 1 {
				valid = false
			}
		}
		keys := make([]string, 0, len(m))
		for k, v := range m {
			keys = append(keys, fmt.Sprintf("%s=%v", k, v))
		}
		sort.Strings(keys)
		return fmt.Sprintf("sat=%v expected=%v model-valid=%v", m != nil, sat, valid), fmt.Sprint(keys)
	}
	return "unknown task", ""
}

// RunTogether runs the tasks as concurrent threads and returns their semantic and raw observations.
func RunTogether(ts []Task) (sem []string, raw []string) {
	sem = make([]string, len(ts))
	raw = make([]string, len(ts))
	done := make(chan int, len(ts))
	for i := range ts {
		i := i
		xGo(func() {
			sem[i], raw[i] = ts[i].RunRaw()
			xSend(done, i)
		})
	}
	for range ts {
		xRecv(done)
	}
	return sem, raw
}

// Stream is what a consumer observed on a result or model channel.
type Stream struct {
	Results  []solver.Result
	Models   [][]bool
	Closed   bool
	// ClosedAtReturn: the channel was closed at the moment the library call returned (observed in the
	// producer thread, with no scheduling point between the return and the observation)
	ClosedAtReturn bool
	Returned solver.Result
	Count    int
	Panic    string
}

// StreamCase is one producer/consumer scenario of C20.
type StreamCase struct {
	Kind  string  `json:"kind"` // optimal | enumerate | wcnf
	F     [][]int `json:"f,omitempty"`
	N     int     `json:"n"`
	Cost  []int   `json:"cost,omitempty"`
	CostW []int   `json:"costw,omitempty"`
	Text  string  `json:"text,omitempty"` // wcnf
	Cap   int     `json:"cap"`
	Hard  [][]int `json:"hard,omitempty"`
	Soft  [][]int `json:"soft,omitempty"`
	SoftW []int   `json:"softw,omitempty"`
}

// RunStream runs the producer (the library call) in its own thread and consumes the channel
// until it is closed, as the documented contract requires.
func RunStream(c StreamCase) (st Stream) {
	done := make(chan struct{}, 1)
	switch c.Kind {
	case "optimal", "wcnf":
		ch := make(chan solver.Result, c.Cap)
		var s solver.Interface
		if c.Kind == "optimal" {
			pb := solver.ParseSliceNb(cp(c.F), c.N)
			if c.Cost != nil {
				lits := make([]solver.Lit, len(c.Cost))
				for i, l := range c.Cost {
					lits[i] = solver.IntToLit(int32(l))
				}
				var w []int
				if c.CostW != nil {
					w = append([]int{}, c.CostW...)
				}
				pb.SetCostFunc(lits, w)
			}
			s = solver.New(pb)
		} else {
			var err error
			s, err = maxsat.ParseWCNF(strings.NewReader(c.Text))
			if err != nil {
				st.Panic = "parse error: " + err.Error()
				return
			}
		}
		xGo(func() {
			defer func() {
				if e := recover(); e != nil {
					st.Panic = fmt.Sprint(e)
				}
				xSend(done, struct{}{})
			}()
			st.Returned = s.Optimal(ch, nil)
			st.ClosedAtReturn = xIsClosed(ch)
		})
		for {
			r, ok := xRecv(ch)
			if !ok {
				st.Closed = true
				break
			}
			st.Results = append(st.Results, r)
		}
		xRecv(done)
	case "enumerate":
		ch := make(chan []bool, c.Cap)
		pb := solver.ParseSliceNb(cp(c.F), c.N)
		s := solver.New(pb)
		xGo(func() {
			defer func() {
				if e := recover(); e != nil {
					st.Panic = fmt.Sprint(e)
				}
				xSend(done, struct{}{})
			}()
			st.Count = s.Enumerate(ch, nil)
			st.ClosedAtReturn = xIsClosed(ch)
		})
		for {
			m, ok := xRecv(ch)
			if !ok {
				st.Closed = true
				break
			}
			st.Models = append(st.Models, m)
		}
		xRecv(done)
	}
	return
}
