// Package core is the bounded-exhaustive exploration engine (E1): canonical
// enumeration of a finite case space, sharded over worker processes, with
// per-case isolation, replay artefacts, evidence and the known-findings protocol.
package core

import (
	"encoding/json"
	"fmt"
	"hash/fnv"
	"sort"
	"sync/atomic"
	"time"
)

// Case is any JSON-serialisable description of one member of the explored space.
type Case interface{}

// Failure is one property violation observed on one execution.
type Failure struct {
	// Sig identifies entry point, failure kind and (narrow) trigger class. It is the
	// key matched against known_findings.jsonl.
	Sig     string `json:"sig"`
	Detail  string `json:"detail"`
	Choices []int  `json:"choices,omitempty"` // E2 choice list / E3 schedule of the failing execution
}

// Scenario decides one property.
type Scenario interface {
	ID() string
	Level() string // exploration | model_checking
	Rule() string
	Assumptions() []string
	// Enumerate yields every case of the tier in canonical (simplest first) order.
	// It must be deterministic. Stop when yield returns false.
	Enumerate(tier string, seed int64, yield func(family string, c Case) bool)
	// Exec runs all executions of one case (one, or many under a choice/schedule
	// explorer) against the real code and judges each against the reference model.
	Exec(c Case, r *Rec) []Failure
	// Decode turns the JSON form of a case back into the value Exec expects.
	Decode(raw json.RawMessage) (Case, error)
}

// Rec collects coverage measurements for the worker it belongs to.
type Rec struct {
	Tier          string
	Seed          int64
	Evaluations   int64            // executions of real code
	Cases         int64            // cases run
	NonTrivialN   int64            // distinct cases that were non-trivial by the scenario's rule
	Counters      map[string]int64 // mechanism hits
	Outcomes      map[string]int64 // distinct observed outcomes (capped)
	States        int64            // distinct (case,state) pairs
	Transitions   int64            // choices / schedule steps executed
	Families      map[string]int64 // cases per family
	Samples       []json.RawMessage
	ReplayChoices []int // non-nil: replay exactly this execution
	Replay        bool
	Heartbeat     int64 // unix nanos of a recent execution (atomic)
	DeadlineUnix  int64 // wall-clock deadline of the tier (internal: capped runs are reported, never alarms)

	curNonTrivial bool
	curStates     map[uint64]struct{}
	sampleBudget  map[string]int
}

func NewRec(tier string, seed int64) *Rec {
	return &Rec{Tier: tier, Seed: seed, Counters: map[string]int64{}, Outcomes: map[string]int64{},
		Families: map[string]int64{}, sampleBudget: map[string]int{}}
}

// BeginCase / EndCase bracket one case.
func (r *Rec) BeginCase(family string) {
	r.Cases++
	r.Families[family]++
	r.curNonTrivial = false
	r.curStates = nil
}

func (r *Rec) EndCase() {
	if r.curNonTrivial {
		r.NonTrivialN++
	}
	r.States += int64(len(r.curStates))
	r.curStates = nil
}

// Execution counts one run of real code. It is also the heartbeat of the worker's watchdog: a
// case may legitimately take long (many executions), a single execution may not.
func (r *Rec) Execution() {
	r.Evaluations++
	if r.Evaluations&15 == 0 {
		atomic.StoreInt64(&r.Heartbeat, time.Now().UnixNano())
	}
}

// NonTrivial marks the current case as non-trivial by the scenario's rule.
func (r *Rec) NonTrivial() { r.curNonTrivial = true }

// Count adds n to a mechanism counter.
func (r *Rec) Count(name string, n int64) {
	if n != 0 {
		r.Counters[name] += n
	}
}

// Outcome records an observed outcome class.
func (r *Rec) Outcome(s string) {
	if _, ok := r.Outcomes[s]; ok || len(r.Outcomes) < 4096 {
		r.Outcomes[s]++
	}
}

// State records a canonical state hash of the current case.
func (r *Rec) State(h uint64) {
	if r.curStates == nil {
		r.curStates = map[uint64]struct{}{}
	}
	r.curStates[h] = struct{}{}
}

// Transition counts n explorer transitions.
func (r *Rec) Transition(n int) { r.Transitions += int64(n) }

// Sample keeps up to k samples per tag.
func (r *Rec) Sample(tag string, k int, v interface{}) {
	if r.sampleBudget[tag] >= k {
		return
	}
	r.sampleBudget[tag]++
	b, err := json.Marshal(map[string]interface{}{"kind": tag, "case": v})
	if err == nil {
		r.Samples = append(r.Samples, b)
	}
}

// Expired tells whether the tier's wall budget is used up.
func (r *Rec) Expired() bool {
	return r.DeadlineUnix != 0 && time.Now().Unix() > r.DeadlineUnix
}

// HashStrings is a convenience FNV hash.
func HashStrings(parts ...string) uint64 {
	h := fnv.New64a()
	for _, p := range parts {
		h.Write([]byte(p))
		h.Write([]byte{0})
	}
	return h.Sum64()
}

// HashInts hashes an int slice.
func HashInts(xs ...int) uint64 {
	h := fnv.New64a()
	var b [8]byte
	for _, x := range xs {
		u := uint64(x)
		for i := 0; i < 8; i++ {
			b[i] = byte(u >> (8 * uint(i)))
		}
		h.Write(b[:])
	}
	return h.Sum64()
}

// Safely runs f, turning a panic into a value.
func Safely(f func()) (panicked bool, val string) {
	defer func() {
		if e := recover(); e != nil {
			panicked = true
			val = fmt.Sprint(e)
		}
	}()
	f()
	return
}

// Registry of scenarios.
var registry = map[string]Scenario{}

func Register(s Scenario) { registry[s.ID()] = s }

func Lookup(id string) Scenario { return registry[id] }

func IDs() []string {
	var ids []string
	for k := range registry {
		ids = append(ids, k)
	}
	sort.Strings(ids)
	return ids
}
