package core

import (
	"bufio"
	"bytes"
	"crypto/sha1"
	"encoding/json"
	"fmt"
	"os"
	"os/exec"
	"path/filepath"
	"runtime"
	"sort"
	"strconv"
	"strings"
	"sync"
	"sync/atomic"
	"syscall"
	"time"
)

// ---------------------------------------------------------------------------
// worker side

type wireFail struct {
	T      string          `json:"t"`
	Idx    int64           `json:"idx"`
	Family string          `json:"family"`
	Case   json.RawMessage `json:"case"`
	Fail   Failure         `json:"fail"`
}

type wireSum struct {
	T           string            `json:"t"`
	Final       bool              `json:"final"`
	Capped      bool              `json:"capped"`
	Last        int64             `json:"last"` // last case index fully processed by this worker (-1 none)
	Total       int64             `json:"total"`
	Evaluations int64             `json:"evaluations"`
	Cases       int64             `json:"cases"`
	NonTrivial  int64             `json:"nontrivial"`
	States      int64             `json:"states"`
	Transitions int64             `json:"transitions"`
	Counters    map[string]int64  `json:"counters"`
	Outcomes    map[string]int64  `json:"outcomes"`
	Families    map[string]int64  `json:"families"`
	SigCounts   map[string]int64  `json:"sig_counts"`
	Samples     []json.RawMessage `json:"samples"`
}

func envInt(name string, def int) int {
	if v := os.Getenv(name); v != "" {
		if n, err := strconv.Atoi(v); err == nil {
			return n
		}
	}
	return def
}

// Seed returns VERIF_SEED (default 1).
func Seed() int64 { return int64(envInt("VERIF_SEED", 1)) }

func limitMemory() {
	var lim syscall.Rlimit
	gib := uint64(envInt("VERIF_WORKER_MEM_GIB", 6))
	lim.Cur, lim.Max = gib<<30, gib<<30
	_ = syscall.Setrlimit(syscall.RLIMIT_AS, &lim)
}

// WorkerMain runs one shard. args: id tier shard nshards start deadlineUnix pin
func WorkerMain(args []string) int {
	if len(args) < 7 {
		fmt.Fprintln(os.Stderr, "worker: bad args")
		return 2
	}
	sc := Lookup(args[0])
	if sc == nil {
		fmt.Fprintln(os.Stderr, "worker: unknown scenario", args[0])
		return 2
	}
	tier := args[1]
	shard, _ := strconv.Atoi(args[2])
	nsh, _ := strconv.Atoi(args[3])
	start, _ := strconv.ParseInt(args[4], 10, 64)
	deadlineUnix, _ := strconv.ParseInt(args[5], 10, 64)
	pin := args[6] == "1"
	limitMemory()
	runtime.GOMAXPROCS(1)
	out := bufio.NewWriterSize(os.Stdout, 1<<16)
	var outMu sync.Mutex
	emit := func(v interface{}) {
		b, _ := json.Marshal(v)
		outMu.Lock()
		out.Write(b)
		out.WriteByte('\n')
		out.Flush()
		outMu.Unlock()
	}
	sigCounts := map[string]int64{}
	rec := NewRec(tier, Seed())
	rec.DeadlineUnix = deadlineUnix
	var cur int64 = -1
	var curStart int64 // unix nanos when the current case began
	var curCase atomic.Value
	hangS := int64(envInt("VERIF_HANG_S", 90))
	go func() { // watchdog: a single case stuck for hangS seconds
		for {
			time.Sleep(time.Second)
			st := atomic.LoadInt64(&curStart)
			if hb := atomic.LoadInt64(&rec.Heartbeat); hb > st && st != 0 {
				st = hb
			}
			if st != 0 && time.Now().UnixNano()-st > hangS*1e9 {
				raw, _ := curCase.Load().(json.RawMessage)
				emit(map[string]interface{}{"t": "hang", "idx": atomic.LoadInt64(&cur), "case": raw})
				os.Exit(3)
			}
		}
	}()
	var last int64 = -1
	var total int64
	capped := false
	lastSum := time.Now()
	mkSum := func(final bool) wireSum {
		return wireSum{T: "sum", Final: final, Capped: capped, Last: last, Total: total, Evaluations: rec.Evaluations, Cases: rec.Cases,
			NonTrivial: rec.NonTrivialN, States: rec.States, Transitions: rec.Transitions, Counters: rec.Counters,
			Outcomes: rec.Outcomes, Families: rec.Families, SigCounts: sigCounts, Samples: rec.Samples}
	}
	var idx int64 = -1
	sc.Enumerate(tier, rec.Seed, func(family string, c Case) bool {
		idx++
		total = idx + 1
		if idx < start || idx%int64(nsh) != int64(shard) {
			return true
		}
		if idx&63 == 0 && time.Now().Unix() > deadlineUnix {
			capped = true
			return false
		}
		raw, _ := json.Marshal(c)
		if pin {
			fmt.Fprintf(os.Stderr, "PIN %d %s %s\n", idx, family, raw)
		}
		curCase.Store(json.RawMessage(raw))
		atomic.StoreInt64(&cur, idx)
		atomic.StoreInt64(&curStart, time.Now().UnixNano())
		rec.BeginCase(family)
		var fails []Failure
		if p, v := Safely(func() { fails = sc.Exec(c, rec) }); p {
			fails = append(fails, Failure{Sig: "harness/panic", Detail: v})
		}
		rec.EndCase()
		atomic.StoreInt64(&curStart, 0)
		if rec.Expired() && rec.Counters["e2_capped_cases"] > 0 {
			capped = true
		}
		last = idx
		for _, f := range fails {
			sigCounts[f.Sig]++
			if sigCounts[f.Sig] <= 3 {
				emit(wireFail{T: "fail", Idx: idx, Family: family, Case: raw, Fail: f})
			}
		}
		if time.Since(lastSum) > 2*time.Second {
			emit(mkSum(false))
			lastSum = time.Now()
		}
		return true
	})
	emit(mkSum(true))
	return 0
}

// ---------------------------------------------------------------------------
// parent side

type Finding struct {
	Status    string          `json:"status"` // known | fixed
	Property  string          `json:"property"`
	Sig       string          `json:"sig"`
	What      string          `json:"what"`
	RootCause string          `json:"root_cause,omitempty"`
	Commit    string          `json:"commit,omitempty"`
	Example   json.RawMessage `json:"example,omitempty"`
}

func loadFindings(path string) ([]Finding, error) {
	b, err := os.ReadFile(path)
	if err != nil {
		if os.IsNotExist(err) {
			return nil, nil
		}
		return nil, err
	}
	var fs []Finding
	for _, ln := range strings.Split(string(b), "\n") {
		ln = strings.TrimSpace(ln)
		if ln == "" || strings.HasPrefix(ln, "#") {
			continue
		}
		var f Finding
		if err := json.Unmarshal([]byte(ln), &f); err != nil {
			return nil, fmt.Errorf("known_findings: %v in %q", err, ln)
		}
		fs = append(fs, f)
	}
	return fs, nil
}

type ReplayFile struct {
	Property string          `json:"property"`
	Tier     string          `json:"tier"`
	Family   string          `json:"family"`
	Idx      int64           `json:"idx"`
	Case     json.RawMessage `json:"case"`
	Failure  Failure         `json:"failure"`
	Count    int64           `json:"cases_with_this_signature"`
}

type agg struct {
	sum       wireSum
	fails     map[string]*wireFail   // smallest idx per sig
	alts      map[string][]*wireFail // every reported case per sig (each worker reports its first few): candidates of the determinism gate
	sigCounts map[string]int64
}

func mergeSum(dst *wireSum, s wireSum) {
	dst.Evaluations += s.Evaluations
	dst.Cases += s.Cases
	dst.NonTrivial += s.NonTrivial
	dst.States += s.States
	dst.Transitions += s.Transitions
	if s.Total > dst.Total {
		dst.Total = s.Total
	}
	dst.Capped = dst.Capped || s.Capped
	for k, v := range s.Counters {
		if dst.Counters == nil {
			dst.Counters = map[string]int64{}
		}
		dst.Counters[k] += v
	}
	for k, v := range s.Outcomes {
		if dst.Outcomes == nil {
			dst.Outcomes = map[string]int64{}
		}
		dst.Outcomes[k] += v
	}
	for k, v := range s.Families {
		if dst.Families == nil {
			dst.Families = map[string]int64{}
		}
		dst.Families[k] += v
	}
	for k, v := range s.SigCounts {
		if dst.SigCounts == nil {
			dst.SigCounts = map[string]int64{}
		}
		dst.SigCounts[k] += v
	}
	if len(dst.Samples) < 12 {
		for _, x := range s.Samples {
			if len(dst.Samples) < 12 {
				dst.Samples = append(dst.Samples, x)
			}
		}
	}
}

// runShard runs one shard to completion, restarting after crashes and hangs.
func runShard(self, id, tier string, shard, nsh int, deadline int64, a *agg, mu *sync.Mutex, log func(string, ...interface{})) {
	start := int64(0)
	pin := "0"
	for attempt := 0; attempt < 50; attempt++ {
		cmd := exec.Command(self, "worker", id, tier, strconv.Itoa(shard), strconv.Itoa(nsh), strconv.FormatInt(start, 10), strconv.FormatInt(deadline, 10), pin)
		cmd.Env = os.Environ()
		var stderr bytes.Buffer
		cmd.Stderr = &stderr
		stdout, _ := cmd.StdoutPipe()
		if err := cmd.Start(); err != nil {
			log("ERROR cannot start worker: %v", err)
			return
		}
		// safety net: a worker that overruns the tier's deadline by more than the grace period (one case
		// that is slow without being stuck) is stopped; the run is then reported as capped
		var killedForDeadline int32
		grace := int64(envInt("VERIF_GRACE_S", 240))
		stopTimer := make(chan struct{})
		go func() {
			for {
				select {
				case <-stopTimer:
					return
				case <-time.After(2 * time.Second):
					if time.Now().Unix() > deadline+grace {
						atomic.StoreInt32(&killedForDeadline, 1)
						cmd.Process.Kill()
						return
					}
				}
			}
		}()
		var lastSum wireSum
		haveSum := false
		var hang *wireFail
		sc := bufio.NewScanner(stdout)
		sc.Buffer(make([]byte, 1<<20), 1<<26)
		for sc.Scan() {
			line := sc.Bytes()
			var probe struct {
				T string `json:"t"`
			}
			if json.Unmarshal(line, &probe) != nil {
				continue
			}
			switch probe.T {
			case "fail":
				var f wireFail
				if json.Unmarshal(line, &f) == nil {
					mu.Lock()
					if old, ok := a.fails[f.Fail.Sig]; !ok || f.Idx < old.Idx {
						ff := f
						a.fails[f.Fail.Sig] = &ff
					}
					if a.alts == nil {
						a.alts = map[string][]*wireFail{}
					}
					if len(a.alts[f.Fail.Sig]) < 64 {
						ff := f
						a.alts[f.Fail.Sig] = append(a.alts[f.Fail.Sig], &ff)
					}
					mu.Unlock()
				}
			case "sum":
				var s wireSum
				if json.Unmarshal(line, &s) == nil {
					lastSum, haveSum = s, true
				}
			case "hang":
				var h struct {
					Idx  int64           `json:"idx"`
					Case json.RawMessage `json:"case"`
				}
				if json.Unmarshal(line, &h) == nil {
					hang = &wireFail{Idx: h.Idx, Case: h.Case, Fail: Failure{Sig: "hang", Detail: "no progress on this case within the watchdog period"}}
				}
			}
		}
		err := cmd.Wait()
		close(stopTimer)
		mu.Lock()
		if haveSum {
			mergeSum(&a.sum, lastSum)
		}
		if atomic.LoadInt32(&killedForDeadline) == 1 {
			a.sum.Capped = true
			if a.sum.Counters == nil {
				a.sum.Counters = map[string]int64{}
			}
			a.sum.Counters["workers_stopped_after_deadline_and_grace"]++
		}
		mu.Unlock()
		if atomic.LoadInt32(&killedForDeadline) == 1 {
			return
		}
		if err == nil && haveSum && lastSum.Final {
			return
		}
		// abnormal end
		if hang != nil {
			mu.Lock()
			a.sum.SigCounts["hang"]++
			if old, ok := a.fails["hang"]; !ok || hang.Idx < old.Idx {
				a.fails["hang"] = hang
			}
			mu.Unlock()
			start = hang.Idx + 1
			continue
		}
		if pin == "0" {
			// crash: find the case by re-running from the last completed case in pin mode
			if haveSum {
				start = lastSum.Last + 1
			}
			pin = "1"
			log("worker %d ended abnormally (%v); re-running from case %d with case pinning", shard, err, start)
			continue
		}
		// pin mode crash: the last PIN line names the case
		lines := strings.Split(stderr.String(), "\n")
		var pinIdx int64 = -1
		var pinFam string
		var pinCase json.RawMessage
		firstFatal := ""
		for _, ln := range lines {
			if strings.HasPrefix(ln, "PIN ") {
				parts := strings.SplitN(ln, " ", 4)
				if len(parts) == 4 {
					pinIdx, _ = strconv.ParseInt(parts[1], 10, 64)
					pinFam = parts[2]
					pinCase = json.RawMessage(parts[3])
					firstFatal = ""
				}
			} else if firstFatal == "" && (strings.HasPrefix(ln, "fatal error:") || strings.HasPrefix(ln, "panic:") || strings.HasPrefix(ln, "runtime:")) {
				firstFatal = ln
			}
		}
		if pinIdx < 0 {
			log("ERROR worker %d crashed before running any case: %v\n%s", shard, err, tail(stderr.String(), 2000))
			mu.Lock()
			a.sum.SigCounts["harness/worker-crash"]++
			mu.Unlock()
			return
		}
		f := &wireFail{Idx: pinIdx, Family: pinFam, Case: pinCase, Fail: Failure{Sig: "crash", Detail: firstFatal + " | " + fmt.Sprint(err)}}
		mu.Lock()
		a.sum.SigCounts["crash"]++
		if old, ok := a.fails["crash"]; !ok || f.Idx < old.Idx {
			a.fails["crash"] = f
		}
		mu.Unlock()
		start = pinIdx + 1
	}
}

func tail(s string, n int) string {
	if len(s) > n {
		return s[len(s)-n:]
	}
	return s
}

// Evidence mirrors EVIDENCE.schema.json.
type Evidence struct {
	PropertyID  string                 `json:"property_id"`
	Tier        string                 `json:"tier"`
	Seed        int64                  `json:"seed"`
	Level       string                 `json:"level"`
	Coverage    map[string]interface{} `json:"coverage"`
	Assumptions []string               `json:"assumptions"`
	WallS       float64                `json:"wall_s"`
	Violations  int                    `json:"violations"`
}

// VerifDir is /verif (overridable for tests).
func VerifDir() string {
	if d := os.Getenv("VERIF_DIR"); d != "" {
		return d
	}
	return "/verif"
}

// OutDir is where evidence and replays are written (VERIF_OUT overrides; used when a
// check is pointed at a patched scratch tree so that /verif/evidence is not overwritten).
func OutDir() string {
	if d := os.Getenv("VERIF_OUT"); d != "" {
		return d
	}
	return VerifDir()
}

// CheckMain runs property id at the given tier; returns the process exit code.
func CheckMain(id, tier string) int {
	sc := Lookup(id)
	if sc == nil {
		fmt.Println("ERROR unknown property", id)
		return 2
	}
	t0 := time.Now()
	self, _ := os.Executable()
	nsh := envInt("VERIF_WORKERS", runtime.NumCPU())
	if nsh > 16 {
		nsh = 16
	}
	budget := 150
	if tier == "thorough" {
		budget = 1500
	}
	budget = envInt("VERIF_BUDGET_S", budget)
	deadline := time.Now().Unix() + int64(budget)
	a := &agg{fails: map[string]*wireFail{}}
	a.sum.SigCounts = map[string]int64{}
	var mu sync.Mutex
	logf := func(f string, args ...interface{}) { fmt.Printf(f+"\n", args...) }
	var wg sync.WaitGroup
	for sh := 0; sh < nsh; sh++ {
		wg.Add(1)
		go func(sh int) {
			defer wg.Done()
			runShard(self, id, tier, sh, nsh, deadline, a, &mu, logf)
		}(sh)
	}
	wg.Wait()

	findings, err := loadFindings(filepath.Join(VerifDir(), "known_findings.jsonl"))
	if err != nil {
		fmt.Println("ERROR", err)
		return 2
	}
	known := map[string]Finding{}
	for _, f := range findings {
		if f.Property == id && f.Status == "known" {
			known[f.Sig] = f
		}
	}
	var sigs []string
	for s := range a.fails {
		sigs = append(sigs, s)
	}
	sort.Slice(sigs, func(i, j int) bool { return a.fails[sigs[i]].Idx < a.fails[sigs[j]].Idx })
	replayDir := filepath.Join(OutDir(), "replays", id)
	os.MkdirAll(replayDir, 0o755)
	violations := 0
	harnessErr := false
	var matched []string
	var lines []string
	for _, s := range sigs {
		f := a.fails[s]
		rf := ReplayFile{Property: id, Tier: tier, Family: f.Family, Idx: f.Idx, Case: f.Case, Failure: f.Fail, Count: a.sum.SigCounts[s]}
		b, _ := json.MarshalIndent(rf, "", " ")
		h := sha1.Sum(append([]byte(s), f.Case...))
		path := filepath.Join(replayDir, fmt.Sprintf("%x.json", h[:6]))
		os.WriteFile(path, b, 0o644)
		if strings.HasPrefix(s, "harness/") {
			harnessErr = true
			lines = append(lines, fmt.Sprintf("ERROR harness failure sig=%s detail=%s replay=%s", s, f.Fail.Detail, path))
			continue
		}
		if kf, ok := known[s]; ok {
			matched = append(matched, s)
			lines = append(lines, fmt.Sprintf("KNOWN-FINDING: property=%s %s [sig=%s cases=%d]", id, kf.What, s, a.sum.SigCounts[s]))
			continue
		}
		// determinism gate: the failure must reproduce identically in fresh processes. The smallest case is tried
		// first; when it does not reproduce (its failure may have depended on state left behind by an earlier case
		// of the same worker process), the other reported cases of the signature are tried, smallest first.
		if s != "hang" && s != "crash" {
			cands := []*wireFail{f}
			alts := append([]*wireFail{}, a.alts[s]...)
			sort.Slice(alts, func(i, j int) bool { return alts[i].Idx < alts[j].Idx })
			for _, x := range alts {
				if x.Idx != f.Idx && len(cands) < 6 {
					cands = append(cands, x)
				}
			}
			ok := false
			firstErr := ""
			for ci, cand := range cands {
				cpath := path
				if ci > 0 {
					crf := ReplayFile{Property: id, Tier: tier, Family: cand.Family, Idx: cand.Idx, Case: cand.Case, Failure: cand.Fail, Count: a.sum.SigCounts[s]}
					cb, _ := json.MarshalIndent(crf, "", " ")
					ch := sha1.Sum(append([]byte(s), cand.Case...))
					cpath = filepath.Join(replayDir, fmt.Sprintf("%x.json", ch[:6]))
					os.WriteFile(cpath, cb, 0o644)
				}
				good := true
				for k := 0; k < 2; k++ {
					code, out := runReplay(self, cpath, 300)
					if code != 1 {
						good = false
						if firstErr == "" {
							firstErr = fmt.Sprintf("ERROR nondeterministic replay sig=%s (replay exit %d) replay=%s\n%s", s, code, cpath, tail(out, 600))
						}
						break
					}
				}
				if good {
					ok = true
					if ci > 0 {
						lines = append(lines, fmt.Sprintf("NOTE sig=%s: the smallest failing case (index %d) did not reproduce in a fresh process, case index %d does", s, f.Idx, cand.Idx))
					}
					f, path = cand, cpath
					break
				}
			}
			if !ok {
				lines = append(lines, firstErr)
				harnessErr = true
				continue
			}
		}
		violations++
		if violations <= 20 {
			lines = append(lines, fmt.Sprintf("VIOLATION property=%s replay=%s sig=%s cases=%d detail=%s", id, path, s, a.sum.SigCounts[s], oneLine(f.Fail.Detail)))
		}
	}
	// results of an auxiliary pass run by run.sh before this check (C16: free-running race detector)
	var extra map[string]interface{}
	if p := os.Getenv("VERIF_EXTRA_RESULT"); p != "" {
		if b, err := os.ReadFile(p); err == nil {
			json.Unmarshal(b, &extra)
		}
		if extra != nil {
			if v, _ := extra["violation"].(string); v != "" {
				violations++
				rp, _ := extra["replay"].(string)
				lines = append(lines, fmt.Sprintf("VIOLATION property=%s replay=%s sig=%s", id, rp, v))
			}
		}
	}
	for _, l := range lines {
		fmt.Println(l)
	}
	// evidence
	// a case whose inner exploration (choice lists / schedules) hit its cap was not covered completely
	innerCapped := a.sum.Counters["capped_cases"] + a.sum.Counters["e2_capped_cases"]
	exhaustive := innerCapped == 0 && !a.sum.Capped && a.sum.SigCounts["crash"] == 0 && a.sum.SigCounts["hang"] == 0 && a.sum.SigCounts["harness/worker-crash"] == 0 && a.sum.Cases == a.sum.Total
	cov := map[string]interface{}{
		"evaluations":                   a.sum.Evaluations,
		"distinct_nontrivial":           a.sum.NonTrivial,
		"rule":                          sc.Rule(),
		"samples":                       a.sum.Samples,
		"cases":                         a.sum.Cases,
		"cases_in_space":                a.sum.Total,
		"states":                        a.sum.States,
		"transitions":                   a.sum.Transitions,
		"traces_validated_against_impl": a.sum.Evaluations,
		"exhaustive":                    exhaustive,
		"families":                      a.sum.Families,
		"mechanism_hits":                a.sum.Counters,
		"distinct_outcomes":             len(a.sum.Outcomes),
		"outcomes":                      topOutcomes(a.sum.Outcomes, 40),
		"known_findings_matched":        matched,
		"failure_signatures":            a.sum.SigCounts,
		"workers":                       nsh,
		"budget_s":                      budget,
	}
	if a.sum.Samples == nil {
		cov["samples"] = []interface{}{}
	}
	if extra != nil {
		cov["auxiliary_pass"] = extra
	}
	if p := os.Getenv("VERIF_INSTR_REPORT"); p != "" {
		if b, err := os.ReadFile(p); err == nil {
			var rep map[string]interface{}
			if json.Unmarshal(b, &rep) == nil {
				cov["instrumentation"] = rep
			}
		}
	}
	ev := Evidence{PropertyID: id, Tier: tier, Seed: Seed(), Level: sc.Level(), Coverage: cov, Assumptions: sc.Assumptions(),
		WallS: time.Since(t0).Seconds(), Violations: violations}
	eb, _ := json.MarshalIndent(ev, "", " ")
	os.MkdirAll(filepath.Join(OutDir(), "evidence"), 0o755)
	if err := os.WriteFile(filepath.Join(OutDir(), "evidence", id+".json"), eb, 0o644); err != nil {
		fmt.Println("ERROR cannot write evidence:", err)
		return 2
	}
	fmt.Printf("SUMMARY property=%s tier=%s cases=%d/%d executions=%d nontrivial=%d states=%d transitions=%d outcomes=%d exhaustive=%v violations=%d known=%d wall=%.1fs\n",
		id, tier, a.sum.Cases, a.sum.Total, a.sum.Evaluations, a.sum.NonTrivial, a.sum.States, a.sum.Transitions, len(a.sum.Outcomes), exhaustive, violations, len(matched), time.Since(t0).Seconds())
	if violations > 0 {
		return 1
	}
	if harnessErr {
		return 2
	}
	return 0
}

func oneLine(s string) string {
	s = strings.ReplaceAll(s, "\n", " / ")
	if len(s) > 300 {
		s = s[:300] + "…"
	}
	return s
}

func topOutcomes(m map[string]int64, k int) map[string]int64 {
	type kv struct {
		k string
		v int64
	}
	var xs []kv
	for a, b := range m {
		xs = append(xs, kv{a, b})
	}
	sort.Slice(xs, func(i, j int) bool { return xs[i].v > xs[j].v || (xs[i].v == xs[j].v && xs[i].k < xs[j].k) })
	r := map[string]int64{}
	for i, x := range xs {
		if i >= k {
			break
		}
		r[x.k] = x.v
	}
	return r
}

func runReplay(self, path string, timeoutS int) (int, string) {
	cmd := exec.Command(self, "replay", path)
	cmd.Env = append(os.Environ(), "VERIF_QUIET=1")
	var out bytes.Buffer
	cmd.Stdout = &out
	cmd.Stderr = &out
	if err := cmd.Start(); err != nil {
		return 2, err.Error()
	}
	done := make(chan error, 1)
	go func() { done <- cmd.Wait() }()
	select {
	case err := <-done:
		if err == nil {
			return 0, out.String()
		}
		if ee, ok := err.(*exec.ExitError); ok {
			return ee.ExitCode(), out.String()
		}
		return 2, out.String()
	case <-time.After(time.Duration(timeoutS) * time.Second):
		cmd.Process.Kill()
		return 3, out.String() + "\n(timeout)"
	}
}

// ReplayMain re-executes one replay file without any exploration.
// Exit 1 if the recorded signature is observed again, 0 if not, 2 on error.
func ReplayMain(path string) int {
	b, err := os.ReadFile(path)
	if err != nil {
		fmt.Println("ERROR", err)
		return 2
	}
	var rf ReplayFile
	if err := json.Unmarshal(b, &rf); err != nil {
		fmt.Println("ERROR", err)
		return 2
	}
	sc := Lookup(rf.Property)
	if sc == nil {
		fmt.Println("ERROR unknown property", rf.Property)
		return 2
	}
	c, err := sc.Decode(rf.Case)
	if err != nil {
		fmt.Println("ERROR decode:", err)
		return 2
	}
	limitMemory()
	runtime.GOMAXPROCS(1) // as in the worker that found the failure (per-P state such as sync.Pool behaves alike)
	rec := NewRec(rf.Tier, Seed())
	rec.Replay = true
	rec.ReplayChoices = rf.Failure.Choices
	if rec.ReplayChoices == nil {
		rec.ReplayChoices = []int{}
	}
	rec.BeginCase(rf.Family)
	var fails []Failure
	if p, v := Safely(func() { fails = sc.Exec(c, rec) }); p {
		fails = append(fails, Failure{Sig: "harness/panic", Detail: v})
	}
	rec.EndCase()
	fmt.Printf("replay property=%s family=%s case=%s choices=%v\n", rf.Property, rf.Family, string(rf.Case), rf.Failure.Choices)
	same := false
	for _, f := range fails {
		fmt.Printf("  observed failure sig=%s detail=%s\n", f.Sig, f.Detail)
		if f.Sig == rf.Failure.Sig {
			same = true
		}
	}
	if len(fails) == 0 {
		fmt.Println("  no failure observed")
	}
	if same {
		fmt.Printf("VIOLATION property=%s replay=%s\n", rf.Property, path)
		return 1
	}
	return 0
}
