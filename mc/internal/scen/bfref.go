package scen

import (
	"fmt"
	"sort"
	"strings"

	"github.com/crillab/gophersat/bf"
)

// Reference model of boolean formulas: a plain tree with the standard semantics of each
// connective (empty conjunction true, empty disjunction false, exactly-one counts == 1).

// BF is a formula tree. Op: var | true | false | not | and | or | implies | eq | xor | unique
type BF struct {
	Op    string   `json:"op"`
	Name  string   `json:"name,omitempty"`
	Names []string `json:"names,omitempty"`
	Kids  []*BF    `json:"kids,omitempty"`
}

func bfVar(n string) *BF          { return &BF{Op: "var", Name: n} }
func bfUnique(ns ...string) *BF   { return &BF{Op: "unique", Names: ns} }
func bfN(op string, k ...*BF) *BF { return &BF{Op: op, Kids: k} }

var bfTrue = &BF{Op: "true"}
var bfFalse = &BF{Op: "false"}

// Eval is the reference semantics.
func (f *BF) Eval(m map[string]bool) bool {
	switch f.Op {
	case "var":
		return m[f.Name]
	case "true":
		return true
	case "false":
		return false
	case "not":
		return !f.Kids[0].Eval(m)
	case "and":
		for _, k := range f.Kids {
			if !k.Eval(m) {
				return false
			}
		}
		return true
	case "or":
		for _, k := range f.Kids {
			if k.Eval(m) {
				return true
			}
		}
		return false
	case "implies":
		return !f.Kids[0].Eval(m) || f.Kids[1].Eval(m)
	case "eq":
		return f.Kids[0].Eval(m) == f.Kids[1].Eval(m)
	case "xor":
		return f.Kids[0].Eval(m) != f.Kids[1].Eval(m)
	case "unique":
		n := 0
		for _, x := range f.Names {
			if m[x] {
				n++
			}
		}
		return n == 1
	}
	panic("bad op " + f.Op)
}

// Build constructs the bf.Formula through the public constructors.
func (f *BF) Build() bf.Formula {
	kids := func() []bf.Formula {
		r := make([]bf.Formula, len(f.Kids))
		for i, k := range f.Kids {
			r[i] = k.Build()
		}
		return r
	}
	switch f.Op {
	case "var":
		return bf.Var(f.Name)
	case "true":
		return bf.True
	case "false":
		return bf.False
	case "not":
		return bf.Not(f.Kids[0].Build())
	case "and":
		return bf.And(kids()...)
	case "or":
		return bf.Or(kids()...)
	case "implies":
		return bf.Implies(f.Kids[0].Build(), f.Kids[1].Build())
	case "eq":
		return bf.Eq(f.Kids[0].Build(), f.Kids[1].Build())
	case "xor":
		return bf.Xor(f.Kids[0].Build(), f.Kids[1].Build())
	case "unique":
		return bf.Unique(append([]string{}, f.Names...)...)
	}
	panic("bad op " + f.Op)
}

// VarNames returns the sorted set of names occurring in f.
func (f *BF) VarNames() []string {
	set := map[string]bool{}
	var rec func(g *BF)
	rec = func(g *BF) {
		if g.Op == "var" {
			set[g.Name] = true
		}
		for _, n := range g.Names {
			set[n] = true
		}
		for _, k := range g.Kids {
			rec(k)
		}
	}
	rec(f)
	var out []string
	for k := range set {
		out = append(out, k)
	}
	sort.Strings(out)
	return out
}

// Table returns the truth table of f over names (bit i of the index = names[i]).
func (f *BF) Table(names []string) []bool {
	n := len(names)
	out := make([]bool, 1<<uint(n))
	m := map[string]bool{}
	for a := 0; a < 1<<uint(n); a++ {
		for i, x := range names {
			m[x] = a>>uint(i)&1 == 1
		}
		out[a] = f.Eval(m)
	}
	return out
}

// bigUniquePolarity reports whether an exactly-one group of more than 4 names occurs at a
// non-positive polarity (under an odd number of negations, on the left of an implication, or
// inside an equivalence / exclusive-or), and whether any exactly-one group does.
func (f *BF) uniquePolarity() (bigNonPositive, anyNonPositive bool) {
	var rec func(g *BF, pos, neg bool)
	rec = func(g *BF, pos, neg bool) {
		switch g.Op {
		case "unique":
			if neg {
				anyNonPositive = true
				if len(g.Names) > 4 {
					bigNonPositive = true
				}
			}
		case "not":
			rec(g.Kids[0], neg, pos)
		case "implies":
			rec(g.Kids[0], neg, pos)
			rec(g.Kids[1], pos, neg)
		case "eq", "xor":
			rec(g.Kids[0], true, true)
			rec(g.Kids[1], true, true)
		default:
			for _, k := range g.Kids {
				rec(k, pos, neg)
			}
		}
	}
	rec(f, true, false)
	return
}

func (f *BF) String() string {
	switch f.Op {
	case "var":
		return f.Name
	case "true":
		return "T"
	case "false":
		return "F"
	case "unique":
		return "{" + strings.Join(f.Names, ",") + "}"
	}
	var ks []string
	for _, k := range f.Kids {
		ks = append(ks, k.String())
	}
	return fmt.Sprintf("%s(%s)", f.Op, strings.Join(ks, ","))
}
