package scen

import (
	"encoding/json"
	"fmt"
	"runtime/debug"
	"strings"

	"github.com/crillab/gophersat/solver"

	"verifmc/internal/choice"
	"verifmc/internal/core"
	"verifmc/internal/tt"
)

// ProbCase is a problem plus the exploration parameters.
type ProbCase struct {
	P    Prob   `json:"p"`
	Dev  int    `json:"dev"`
	Mode string `json:"mode,omitempty"`
	CP   bool   `json:"cp,omitempty"`
	AMO  bool   `json:"amo,omitempty"`
	// NbMax < 0: configuration "tight limit" (the learned-constraint database limit follows its size,
	// so the real code reduces at every opportunity of its own schedule); 0 = default limit
	NbMax int `json:"nbmax,omitempty"`
}

type probObs struct {
	buildPanic string
	buildErr   error
	parseStat  solver.Status
	nbVars     int
	panicked   string
	aborted    bool
	status     solver.Status
	model      []bool
	stats      solver.Stats
}

// guard runs f, classifying a panic as abort (step budget) or genuine panic.
func guard(f func()) (panicked string, aborted bool) {
	defer func() {
		if e := recover(); e != nil {
			if _, ok := e.(solver.VerifAbort); ok {
				aborted = true
			} else {
				panicked = fmt.Sprint(e)
				lastPanicSite = panicSite(string(debug.Stack()))
			}
		}
	}()
	f()
	return
}

// lastPanicSite is the innermost gophersat function on the stack of the last panic caught by guard.
var lastPanicSite string

func panicSite(stack string) string {
	lines := strings.Split(stack, "\n")
	seenPanic := false
	for _, ln := range lines {
		if strings.HasPrefix(ln, "panic(") {
			seenPanic = true
			continue
		}
		if seenPanic && strings.HasPrefix(ln, "github.com/crillab/gophersat/") {
			fn := strings.TrimPrefix(ln, "github.com/crillab/gophersat/")
			if i := strings.LastIndex(fn, "("); i > 0 {
				fn = fn[:i]
			}
			fn = strings.NewReplacer("(*Solver).", "", "(*Problem).", "", "(*Clause).", "", "(*pbSet).", "").Replace(fn)
			return fn
		}
	}
	return "unknown"
}

func runProbSolve(p Prob, cp, amo bool) (o probObs) {
	var pb *solver.Problem
	if pn, v := core.Safely(func() { pb, o.buildErr = p.Build() }); pn {
		o.buildPanic = v
		return
	}
	if o.buildErr != nil {
		return
	}
	o.parseStat = pb.Status
	o.nbVars = pb.NbVars
	o.panicked, o.aborted = guard(func() {
		if amo {
			pb.DetectAtMostOne()
		}
		s := solver.New(pb)
		s.CuttingPlanes = cp
		o.status = s.Solve()
		o.stats = s.Stats
		if o.status == solver.Sat {
			o.model = s.Model()
		}
	})
	return
}

// modelOK tells whether every completion of model over n variables is in models.
func modelOK(models tt.Set, model []bool) bool {
	n := models.N
	if len(model) > n {
		model = model[:n]
	}
	base := tt.FromBools(model)
	free := n - len(model)
	for x := uint32(0); x < 1<<uint(free); x++ {
		if !models.Has(base | x<<uint(len(model))) {
			return false
		}
	}
	return true
}

func judgeSolve(front string, o probObs, models tt.Set) []core.Failure {
	var fs []core.Failure
	add := func(kind, detail string) { fs = append(fs, core.Failure{Sig: front + "/" + kind, Detail: detail}) }
	switch {
	case o.buildPanic != "":
		add("build-panic", o.buildPanic)
		return fs
	case o.buildErr != nil:
		add("build-error", o.buildErr.Error())
		return fs
	case o.panicked != "":
		add("solve-panic", o.panicked)
		return fs
	case o.aborted:
		add("nontermination", "step budget exceeded")
		return fs
	}
	sat := !models.IsEmpty()
	if o.parseStat == solver.Unsat && sat {
		add("parse-status-unsat-on-satisfiable", "Problem.Status is Unsat, the constraints have a model")
	}
	switch o.status {
	case solver.Sat:
		if !sat {
			add("sat-on-unsatisfiable", fmt.Sprintf("Solve answered Sat (model %v), no assignment satisfies the constraints", o.model))
		} else if !modelOK(models, o.model) {
			add("invalid-model", fmt.Sprintf("model %v violates a constraint as written", o.model))
		}
	case solver.Unsat:
		if sat {
			add("unsat-on-satisfiable", "Solve answered Unsat, the constraints have a model")
		}
	default:
		add("indet", fmt.Sprintf("Solve returned status %d", o.status))
	}
	return fs
}

func probOutcome(o probObs) string {
	switch {
	case o.buildPanic != "" || o.panicked != "":
		return "panic"
	case o.buildErr != nil:
		return "build-error"
	case o.aborted:
		return "aborted"
	}
	return fmt.Sprintf("%v/parse=%v/confl=%d/learned=%d/units=%d", o.status, o.parseStat, min3(o.stats.NbConflicts), min3(o.stats.NbLearned), min3(o.stats.NbUnitLearned))
}

var currentOpts choice.Opts

// exploreProb is the shared Exec skeleton: one execution per choice list.
func exploreProb(r *core.Rec, dev int, sample interface{}, tag string, run func(choices []int) []core.Failure) []core.Failure {
	return exploreProbCfg(r, dev, 0, sample, tag, run)
}

func exploreProbCfg(r *core.Rec, dev, nbMax int, sample interface{}, tag string, run func(choices []int) []core.Failure) []core.Failure {
	var fails []core.Failure
	opts := choice.Std(dev)
	opts.NbMax = nbMax
	opts.Stop = r.Expired
	currentOpts = opts
	st := choice.Explore(opts, r.ReplayChoices, func(ctl *choice.Ctl, choices []int) bool {
		ctl.OnState = r.State
		currentCtl = ctl
		r.Execution()
		for _, f := range run(choices) {
			f.Choices = append([]int{}, choices...)
			fails = append(fails, f)
		}
		return len(fails) == 0
	})
	countExplore(r, st)
	if st.Diverged {
		fails = append(fails, core.Failure{Sig: "harness/choice-divergence", Detail: "a recorded choice was out of range on replay of its own prefix"})
	}
	if st.NonDefault > 0 {
		r.Sample(tag+"-with-choices", 1, map[string]interface{}{"case": sample, "choices": st.SampleTrace})
	}
	r.Sample(tag, 2, sample)
	return fails
}

// enumConstraintSets is the shared card/PB family list (C02, reused by C05/C14).
func enumConstraintSets(tier string, yield func(fam string, p Prob) bool) bool {
	thorough := tier == "thorough"
	// cardinality front end, n=3
	ca := cardAlphabet(3)
	cu := unitCons("card", 3)
	for _, c := range ca {
		if !yield("card1", Prob{Front: "card", N: 3, Cs: cpCons(c)}) {
			return false
		}
		for _, u := range cu {
			if !yield("card1u", Prob{Front: "card", N: 3, Cs: cpCons(c, u)}) || !yield("card1u", Prob{Front: "card", N: 3, Cs: cpCons(u, c)}) {
				return false
			}
		}
	}
	for _, a := range ca {
		for _, b := range ca {
			if !yield("card2", Prob{Front: "card", N: 3, Cs: cpCons(a, b)}) {
				return false
			}
		}
	}
	// PB front end: singles over n=3, weights [-2..2] (thorough [-3..3]), with each unit
	lo, hi := -2, 2
	if thorough {
		lo, hi = -3, 3
	}
	pa := pbAlphabet(3, 0, 3, lo, hi, []string{"ge", "le", "eq"}, true)
	pu := unitCons("pb", 3)
	for _, c := range pa {
		if !yield("pb1", Prob{Front: "pb", N: 3, Cs: cpCons(c)}) {
			return false
		}
		for _, u := range pu {
			if !yield("pb1u", Prob{Front: "pb", N: 3, Cs: cpCons(c, u)}) {
				return false
			}
		}
	}
	// PB pairs over n=2 (thorough: n=2 full weights; quick: weights [-1..2])
	plo, phi := -1, 2
	if thorough {
		plo, phi = -2, 2
	}
	pp := pbAlphabet(2, 1, 2, plo, phi, []string{"ge", "le", "eq"}, true)
	for _, a := range pp {
		for _, b := range pp {
			if !yield("pb2", Prob{Front: "pb", N: 2, Cs: cpCons(a, b)}) {
				return false
			}
		}
	}
	// PB pairs over n=3 with non-negative weights, ge only (propagation between constraints)
	p3 := pbAlphabet(3, 2, 3, 1, 2, []string{"ge"}, false)
	if thorough {
		p3 = pbAlphabet(3, 2, 3, 1, 3, []string{"ge"}, false)
	}
	for _, a := range p3 {
		for _, b := range p3 {
			if !yield("pb2n3", Prob{Front: "pb", N: 3, Cs: cpCons(a, b)}) {
				return false
			}
		}
	}
	// decreasing coefficients with every subset of variables fixed by units
	ks := []int{4}
	if thorough {
		ks = []int{4, 5}
	}
	for _, k := range ks {
		for _, c := range decreasingPB(k) {
			tot := 1
			for i := 0; i < k; i++ {
				tot *= 3
			}
			for code := 0; code < tot; code++ {
				cs := cpCons(c)
				x := code
				for v := 1; v <= k; v++ {
					switch x % 3 {
					case 1:
						cs = append(cs, Con{T: "ge", L: []int{v}, W: []int{1}, K: 1})
					case 2:
						cs = append(cs, Con{T: "ge", L: []int{-v}, W: []int{1}, K: 1})
					}
					x /= 3
				}
				if !yield("dec", Prob{Front: "pb", N: k, Cs: cs}) {
					return false
				}
			}
		}
	}
	// wu4: one >= constraint over 4 variables with every non-increasing weight vector over {1,2,3}
	// (repeated weights included), in two sign patterns, every degree, with every subset of its
	// variables fixed by units: parse-time removal of fixed literals reorders the remaining terms
	for _, w := range weightVectors(4, 1, 3) {
		if w[0] < w[1] || w[1] < w[2] || w[2] < w[3] {
			continue
		}
		for _, signs := range [][]int{{1, 2, 3, 4}, {-1, 2, -3, 4}} {
			for d := 1; d <= absSum(w); d++ {
				c := Con{T: "ge", L: signs, W: w, K: d}
				for code := 0; code < 81; code++ {
					cs := cpCons(c)
					x := code
					for v := 1; v <= 4; v++ {
						switch x % 3 {
						case 1:
							cs = append(cs, Con{T: "ge", L: []int{v}, W: []int{1}, K: 1})
						case 2:
							cs = append(cs, Con{T: "ge", L: []int{-v}, W: []int{1}, K: 1})
						}
						x /= 3
					}
					if !yield("wu4", Prob{Front: "pb", N: 4, Cs: cs}) {
						return false
					}
				}
			}
		}
	}
	return true
}

type c02 struct{}

func (c02) ID() string    { return "C02" }
func (c02) Level() string { return "exploration" }
func (c02) Rule() string {
	return "cases = constraint sets built through the public constructors: every single cardinality constructor call over 3 variables (AtLeast1/AtMost1/Exactly1 on every literal set, CardConstr with every degree -1..len+1) alone, with every unit, and every ordered pair; every single PB constructor call over 3 variables (PropClause/AtLeast/AtMost, GtEq/LtEq/Eq with every weight vector in [-2..2] and every degree -1..sum|w|+1) alone and with every unit; every ordered pair over 2 variables; pairs of >= constraints over 3 variables; one constraint with strictly decreasing coefficients, and one with every non-increasing weight vector over {1,2,3} on 4 variables, with every subset of its variables fixed by units; seeded catalogues (VERIF_SEED) of 1500 clause/cardinality mixes and 1500 weighted-PB problems over 5..10 variables, each with all its one-edit neighbours; front pb2 (reused values): the PB families again with the caller keeping its PBConstr values (equal constraints are one shared value, the first constraint listed twice, the list parsed twice). Each case runs once per heuristic choice list (<=1 deviation) and is judged against integer arithmetic on the constraints as written. Non-trivial = the parser did not decide the case alone (status Indet after parsing) or it decided Unsat."
}
func (c02) Assumptions() []string {
	return []string{"truth-table / integer-arithmetic reference is correct", "coefficients outside [-3..3] and more than 5 variables are not covered"}
}
func (c02) Decode(raw json.RawMessage) (core.Case, error) {
	var c ProbCase
	err := json.Unmarshal(raw, &c)
	return c, err
}
func (c02) Enumerate(tier string, seed int64, yield func(string, core.Case) bool) {
	if !enumConstraintSets(tier, func(fam string, p Prob) bool { return yield(fam, ProbCase{P: p, Dev: 1}) }) {
		return
	}
	// the caller keeps and reuses its constraint values (front "pb2"): a PBConstr value listed twice, and the list
	// parsed twice; on the PB singles, singles with units, pairs and the decreasing-coefficient family
	if !enumConstraintSets(tier, func(fam string, p Prob) bool {
		if p.Front != "pb" {
			return true
		}
		q := p
		q.Front = "pb2"
		if !yield(fam+"/reused", ProbCase{P: q, Dev: 0}) {
			return false
		}
		q.Cs = append(cpCons(p.Cs[0]), cpCons(p.Cs...)...)
		return yield(fam+"/reused", ProbCase{P: q, Dev: 0})
	}) {
		return
	}
	// several constraints sharing watched literals: seeded catalogues of clause/cardinality mixes and
	// of weighted PB constraints over 5..10 variables, with all one-edit neighbours
	n := 1500
	if tier == "thorough" {
		n = 15000
	}
	for _, weighted := range []bool{false, true} {
		if !enumMixedCatalogue(seed, n, weighted, func(name string, p Prob) bool { return yield(name, ProbCase{P: p, Dev: 1}) }) {
			return
		}
	}
}

func (c02) Exec(cc core.Case, r *core.Rec) []core.Failure {
	c := cc.(ProbCase)
	models := tt.Models(c.P.MaxVar(), c.P.Ref())
	return exploreProb(r, c.Dev, c, "constraints", func(choices []int) []core.Failure {
		o := runProbSolve(c.P, false, false)
		countStats(r, o.stats)
		r.Outcome(probOutcome(o))
		if o.buildPanic == "" && o.buildErr == nil && (o.parseStat == solver.Indet || o.parseStat == solver.Unsat) {
			r.NonTrivial()
		}
		return judgeSolve(c.P.Front, o, models)
	})
}

func init() { core.Register(c02{}) }
