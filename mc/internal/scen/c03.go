package scen

import (
	"encoding/json"
	"fmt"

	"github.com/crillab/gophersat/solver"

	"verifmc/internal/core"
	"verifmc/internal/tt"
)

// C03 — the reported optimum is the true minimum of the cost function.
// Modes: optimal-nil | optimal-chan | minimize

type c03 struct{}

func (c03) ID() string    { return "C03" }
func (c03) Level() string { return "exploration" }
func (c03) Rule() string {
	return "cases = (constraint set, cost function, entry point): CNF from T2 (<=2 clauses), S3 (<=2 clauses, 3 thorough) and S4 pairs, cardinality/PB sets (singles, card pairs, PB pairs over 3 variables, decreasing-coefficient family) x every cost function over a non-empty set of distinct variables, either polarity, weights nil (all 1) or every vector over {0,1,2} (quick) / {0..3} (thorough), negative weights through the OPB front end ([-2..2]), and no cost function at all; plus OC, a seeded catalogue of covering-like CNFs over 8..12 variables with a cost function over all variables with distinct weights and all one-edit neighbours (3..8 successive improvements per run), and MO, a seeded catalogue of weighted PB problems with a weighted cost function over 8..12 variables with regression instances and all one-edit neighbours, x {Optimal(nil), Optimal(channel), Minimize} x heuristic choice list (<=1 deviation across all the Solve calls of the optimisation loop). Oracle: truth-table minimum: Unsat iff no model; model satisfies all constraints; reported cost == cost(model) == minimum; stream of results has strictly decreasing true costs. Non-trivial = the optimisation loop made at least one improving step (two or more results) or proved Unsat after search."
}
func (c03) Assumptions() []string {
	return []string{"truth-table reference is correct", "Minimize's -1 is read as Unsat only when -1 is not the true optimum (the integer-returning entry point cannot distinguish them)", "weights outside [-2..3] are not covered"}
}
func (c03) Decode(raw json.RawMessage) (core.Case, error) {
	var c ProbCase
	err := json.Unmarshal(raw, &c)
	return c, err
}

var c03Modes = []string{"optimal-nil", "optimal-chan", "minimize"}

// costFunctions over variables 1..n: subsets x polarity x weights.
func costFunctions(n, maxS, wlo, whi int, withNil bool) [][2][]int {
	var out [][2][]int
	for _, l := range litSets(n, 1, maxS) {
		if withNil {
			out = append(out, [2][]int{l, nil})
		}
		for _, w := range weightVectors(len(l), wlo, whi) {
			out = append(out, [2][]int{l, w})
		}
	}
	return out
}

func (c03) Enumerate(tier string, seed int64, yield func(string, core.Case) bool) {
	thorough := tier == "thorough"
	whi := 2
	if thorough {
		whi = 3
	}
	emit := func(fam string, p Prob, costs [][2][]int, dev int, modes []string) bool {
		for _, cf := range costs {
			q := p
			q.CostL = append([]int{}, cf[0]...)
			if cf[1] != nil {
				q.CostW = append([]int{}, cf[1]...)
			}
			for _, m := range modes {
				if !yield(fam, ProbCase{P: q, Dev: dev, Mode: m}) {
					return false
				}
			}
		}
		return true
	}
	noCost := func(fam string, p Prob) bool {
		for _, m := range c03Modes {
			if !yield(fam+"/nocost", ProbCase{P: p, Dev: 0, Mode: m}) {
				return false
			}
		}
		return true
	}
	cf2 := costFunctions(2, 2, 0, whi, true)
	cf3 := costFunctions(3, 3, 0, whi, true)
	cf3s := costFunctions(3, 2, 0, 2, true)
	if !famT2(2, -1, func(f [][]int, n int) bool {
		p := cnfProb("slicenb", f, n, n)
		return noCost("T2", p) && emit("T2", p, cf2, 1, c03Modes)
	}) {
		return
	}
	s3m := 2
	if thorough {
		s3m = 3
	}
	if !famS3(s3m, s3m, func(f [][]int, n int) bool {
		p := cnfProb("slicenb", f, n, n)
		if len(f) <= 1 {
			return noCost("S3", p) && emit("S3", p, cf3, 1, c03Modes)
		}
		return emit("S3", p, cf3, 0, c03Modes[:1]) && emit("S3", p, cf3s, 1, c03Modes[2:])
	}) {
		return
	}
	// constraint sets
	cfc := costFunctions(3, 2, 0, 2, true)
	if !enumConstraintSets(tier, func(fam string, p Prob) bool {
		switch fam {
		case "card1", "card1u":
			return noCost(fam, p) && emit(fam, p, cfc, 1, c03Modes)
		case "pb1":
			if !thorough && len(p.Cs[0].L) == 3 && absSum(p.Cs[0].W) > 4 {
				return true
			}
			return emit(fam, p, cfc, 0, c03Modes[:1])
		case "dec":
			if len(p.Cs) > 2 {
				return true
			}
			return emit(fam, p, costFunctions(4, 4, 1, 2, true), 0, c03Modes[:1])
		}
		return true
	}) {
		return
	}
	// OC: seeded catalogue of covering-like CNFs over 8..12 variables (clauses of 2..4 mostly positive
	// literals) with a cost function over ALL variables with distinct weights, and all their one-edit
	// neighbours: optimisation then takes 3..8 successive improvements, cost literals get fixed at top
	// level between improvements (by the bound or by learned units), and bound constraints coexist
	{
		nseeds := 90
		if thorough {
			nseeds = 1500
		}
		g := &lcg{s: uint64(seed)*48271 + 11}
		for sd := 0; sd < nseeds; sd++ {
			n := 8 + int(g.next()%5)
			m := n + int(g.next()%uint64(n))
			var f [][]int
			for i := 0; i < m; i++ {
				k := 2 + int(g.next()%3)
				used := map[int]bool{}
				var cl []int
				for len(cl) < k {
					v := 1 + int(g.next()%uint64(n))
					if used[v] {
						continue
					}
					used[v] = true
					if g.next()%5 == 0 {
						v = -v
					}
					cl = append(cl, v)
				}
				f = append(f, cl)
			}
			// weights: a seeded permutation of 1..n
			w := make([]int, n)
			l := make([]int, n)
			for i := range w {
				w[i], l[i] = i+1, i+1
			}
			for i := n - 1; i > 0; i-- {
				j := int(g.next() % uint64(i+1))
				w[i], w[j] = w[j], w[i]
			}
			cost := [][2][]int{{l, w}}
			variants := [][][]int{f}
			for i := range f {
				variants = append(variants, append(copyCNF(f[:i]), copyCNF(f[i+1:])...))
				for j := range f[i] {
					h := copyCNF(f)
					h[i][j] = -h[i][j]
					variants = append(variants, h)
				}
			}
			for vi, h := range variants {
				mode := c03Modes[:1]
				if vi%2 == 1 {
					mode = c03Modes[2:]
				}
				if !emit("OC", cnfProb("slicenb", h, n, n), cost, 1, mode) {
					return
				}
			}
		}
	}
	// MO: seeded catalogue of optimisation problems with weighted PB constraints and a weighted cost function over
	// 8..12 variables, with the regression instances and all one-edit neighbours (shared with C14)
	{
		nseeds := 300
		if thorough {
			nseeds = 2500
		}
		mi := 0
		if !enumOptCatalogue(seed, nseeds, func(name string, p Prob) bool {
			mi++
			cost := [][2][]int{{p.CostL, p.CostW}}
			q := p
			q.CostL, q.CostW = nil, nil
			return emit(name, q, cost, 0, c03Modes[mi%3:mi%3+1])
		}) {
			return
		}
	}
	// OPB front end with coefficients of either sign in the cost function
	cfneg := costFunctions(3, 3, -2, 2, false)
	pa := pbAlphabet(3, 2, 3, 1, 2, []string{"ge"}, false)
	for _, a := range pa {
		if !emit("opb1", Prob{Front: "opb", N: 3, Cs: cpCons(a)}, cfneg, 0, c03Modes[:1]) {
			return
		}
	}
	for i, a := range pa {
		for j, b := range pa {
			if (i+j)%61 != 0 && !thorough { // every 61st pair in quick, all pairs in thorough
				continue
			}
			if !emit("opb2", Prob{Front: "opb", N: 3, Cs: cpCons(a, b)}, costFunctions(3, 2, -2, 2, false), 0, c03Modes[2:]) {
				return
			}
		}
	}
}

type optObs struct {
	probObs
	res      solver.Result
	stream   []solver.Result
	closed   bool
	hasChan  bool
	minCost  int
	minModel []bool
}

func runOptim(c ProbCase) (o optObs) {
	var pb *solver.Problem
	if pn, v := core.Safely(func() { pb, o.buildErr = c.P.Build() }); pn {
		o.buildPanic = v
		return
	}
	if o.buildErr != nil {
		return
	}
	o.parseStat = pb.Status
	o.nbVars = pb.NbVars
	o.panicked, o.aborted = guard(func() {
		if c.AMO {
			pb.DetectAtMostOne()
		}
		s := solver.New(pb)
		s.CuttingPlanes = c.CP
		switch c.Mode {
		case "optimal-nil":
			o.res = s.Optimal(nil, nil)
		case "optimal-chan":
			ch := make(chan solver.Result, 4096)
			o.hasChan = true
			o.res = s.Optimal(ch, nil)
		loop:
			for {
				select {
				case x, ok := <-ch:
					if !ok {
						o.closed = true
						break loop
					}
					o.stream = append(o.stream, x)
				default:
					break loop
				}
			}
		case "minimize":
			o.minCost = s.Minimize()
			core.Safely(func() { o.minModel = s.Model() }) // panics (caught) when there is no model
		}
		o.stats = s.Stats
	})
	return
}

// judgeOptim compares with the truth table. entry = signature prefix.
func judgeOptim(entry string, c ProbCase, o optObs, models tt.Set) []core.Failure {
	var fs []core.Failure
	add := func(kind, detail string) { fs = append(fs, core.Failure{Sig: entry + "/" + kind, Detail: detail}) }
	switch {
	case o.buildPanic != "":
		add("build-panic", o.buildPanic)
		return fs
	case o.buildErr != nil:
		add("build-error", o.buildErr.Error())
		return fs
	case o.panicked != "":
		add("panic", o.panicked)
		return fs
	case o.aborted:
		add("nontermination", "step budget exceeded")
		return fs
	}
	p := c.P
	best, sat := tt.MinCost(models, p.CostL, p.CostW)
	if p.CostL == nil {
		best = 0
	}
	costOf := func(m []bool) (int, bool) {
		// a model shorter than the caller's variable set (the front end dropped variables that
		// only occur in trivially true constraints) is acceptable only if every completion is a
		// model; the cost function never mentions dropped variables (such cases are skipped).
		if !modelOK(models, m) {
			return 0, false
		}
		if p.CostL == nil {
			return 0, true
		}
		if len(m) > models.N {
			m = m[:models.N]
		}
		return tt.Cost(p.CostL, p.CostW, tt.FromBools(m)), true
	}
	checkResult := func(what string, r solver.Result) {
		switch r.Status {
		case solver.Unsat:
			if sat {
				add(what+"unsat-on-satisfiable", "result is Unsat, the constraints have a model")
			}
		case solver.Sat:
			if !sat {
				add(what+"sat-on-unsatisfiable", fmt.Sprintf("result is Sat with model %v, no model exists", r.Model))
				return
			}
			cm, ok := costOf(r.Model)
			if !ok {
				add(what+"invalid-model", fmt.Sprintf("model %v violates a constraint (or is too short)", r.Model))
				return
			}
			if cm != r.Weight {
				add(what+"cost-mismatch", fmt.Sprintf("reported cost %d, the model %v costs %d", r.Weight, r.Model, cm))
			}
		default:
			add(what+"indet", fmt.Sprintf("status %d", r.Status))
		}
	}
	switch c.Mode {
	case "optimal-nil", "optimal-chan", "solve":
		checkResult("", o.res)
		if len(fs) == 0 && o.res.Status == solver.Sat && o.res.Weight != best {
			add("not-optimal", fmt.Sprintf("returned cost %d (model %v), the minimum is %d", o.res.Weight, o.res.Model, best))
		}
		if o.hasChan && len(fs) == 0 {
			if !o.closed {
				add("channel-not-closed", "results channel not closed when Optimal returned")
			}
			if len(o.stream) == 0 {
				add("empty-stream", "no result was delivered on the channel")
			}
			for i, x := range o.stream {
				checkResult(fmt.Sprintf("stream/"), x)
				if i > 0 && x.Status == solver.Sat && o.stream[i-1].Status == solver.Sat && x.Weight >= o.stream[i-1].Weight {
					add("stream/not-decreasing", fmt.Sprintf("costs %d then %d", o.stream[i-1].Weight, x.Weight))
				}
			}
			if n := len(o.stream); n > 0 && len(fs) == 0 {
				last := o.stream[n-1]
				if last.Status != o.res.Status || last.Weight != o.res.Weight || fmt.Sprint(last.Model) != fmt.Sprint(o.res.Model) {
					add("stream/last-differs-from-returned", fmt.Sprintf("last delivered %v, returned %v", last, o.res))
				}
			}
		}
	case "minimize":
		if !sat {
			if o.minCost != -1 {
				add("cost-on-unsatisfiable", fmt.Sprintf("Minimize returned %d, no model exists", o.minCost))
			}
			return fs
		}
		if o.minCost == -1 && best != -1 {
			add("unsat-on-satisfiable", "Minimize returned -1, the constraints have a model")
			return fs
		}
		if o.minCost != best {
			add("not-optimal", fmt.Sprintf("Minimize returned %d, the minimum is %d", o.minCost, best))
			return fs
		}
		cm, ok := costOf(o.minModel)
		if !ok {
			add("invalid-model", fmt.Sprintf("Model() after Minimize is %v: violates a constraint", o.minModel))
		} else if cm != o.minCost {
			add("cost-mismatch", fmt.Sprintf("Minimize returned %d, Model() %v costs %d", o.minCost, o.minModel, cm))
		}
	}
	return fs
}

func costTrigger(p Prob) string {
	if p.CostL == nil {
		return "nocost"
	}
	if p.CostW == nil {
		return "nilweights"
	}
	neg, zero := false, false
	for _, w := range p.CostW {
		if w < 0 {
			neg = true
		}
		if w == 0 {
			zero = true
		}
	}
	switch {
	case neg:
		return "negweight"
	case zero:
		return "zeroweight"
	}
	return "posweights"
}

func (c03) Exec(cc core.Case, r *core.Rec) []core.Failure {
	c := cc.(ProbCase)
	models := tt.Models(c.P.Declared(), c.P.Ref())
	if c.P.Front == "card" || c.P.Front == "pb" {
		// the constraint front ends derive the variable count from the constraints they keep; a
		// cost function over a variable they do not know is outside the documented domain
		if pb, err := safeBuild(c.P); err == nil && pb != nil {
			for _, l := range c.P.CostL {
				if l > pb.NbVars || -l > pb.NbVars {
					r.Count("skipped_cost_variable_unknown_to_front_end", 1)
					return nil
				}
			}
		}
	}
	return exploreProb(r, c.Dev, c, "optimisation", func(choices []int) []core.Failure {
		o := runOptim(c)
		countStats(r, o.stats)
		steps := len(o.stream)
		if steps >= 2 || o.stats.NbConflicts > 0 || o.stats.NbDecisions > 0 {
			r.NonTrivial()
		}
		r.Count("improving_steps", int64(maxInt(0, steps-1)))
		r.Outcome(fmt.Sprintf("%s/%s/%v/steps=%d/confl=%d", c.Mode, costTrigger(c.P), o.res.Status, min3(steps), min3(o.stats.NbConflicts)))
		return judgeOptim(c.P.Front+"/"+c.Mode+"/"+costTrigger(c.P), c, o, models)
	})
}

func safeBuild(p Prob) (pb *solver.Problem, err error) {
	if pn, v := core.Safely(func() { pb, err = p.Build() }); pn {
		return nil, fmt.Errorf("panic: %s", v)
	}
	return
}

func maxInt(a, b int) int {
	if a > b {
		return a
	}
	return b
}

func init() { core.Register(c03{}) }
