package scen

import (
	"encoding/json"
	"fmt"
	"sort"
	"strings"

	"github.com/crillab/gophersat/maxsat"
	"github.com/crillab/gophersat/solver"

	"verifmc/internal/core"
	"verifmc/internal/tt"
)

// C04 — MaxSAT answers minimise the weight of violated soft constraints.

// MCon is one weighted constraint of the constraint API. Lits are signed indexes into the
// variable names a,b,c,d; Coeffs nil means unit coefficients; Weight 0 means hard.
type MCon struct {
	L []int `json:"l"`
	C []int `json:"c,omitempty"`
	K int   `json:"k"`
	W int   `json:"w"`
}

type MaxCase struct {
	API   bool     `json:"api"`
	Cons  []MCon   `json:"cons,omitempty"`
	Perm  []int    `json:"perm,omitempty"` // permutation of the cost function order (API)
	Text  string   `json:"text,omitempty"` // WCNF text
	N     int      `json:"n"`              // declared variables (WCNF) / number of names (API)
	Hard  [][]int  `json:"hard,omitempty"` // WCNF reference
	Soft  [][]int  `json:"soft,omitempty"`
	SoftW []int    `json:"softw,omitempty"`
	Chan  bool     `json:"chan,omitempty"`
	Names []string `json:"-"`
}

var mxNames = []string{"a", "b", "c", "d"}

type c04 struct{}

func (c04) ID() string    { return "C04" }
func (c04) Level() string { return "exploration" }
func (c04) Rule() string {
	return "cases = (a) constraint API: every instance of <=2 constraints (any shape; pairs with weights {hard,1,2} in quick: clause, cardinality with implicit unit coefficients and AtLeast 1..len, PB with coefficients in {1,2} and AtLeast 1..sum) and every instance of 3 constraints from a reduced alphabet, every triple of soft cardinality constraints (implicit coefficients, degree >= 2, sizes 2 and 3 in every order) with weights (1,1,1) and (1,2,3), over 3 named variables, each constraint hard or soft with weight 1..3, x every permutation of the cost-function order (the map-iteration order of maxsat.New made explicit through the verif hook); (b) WCNF: every text with <=3 clauses of <=2 literals over 2 variables, weights 1..3, top weight absent/2/4/sum+1, declared variable count = max used or +1, x Optimal with and without a result channel. Oracle: truth table over the user's variables: unsatisfiable iff the hard part is; model covers exactly the user's variables (no relaxation variable); hard constraints satisfied; reported cost == weight of the soft constraints the model violates == minimum. Non-trivial = at least one soft constraint must be violated at the optimum, or the hard part is unsatisfiable."
}
func (c04) Assumptions() []string {
	return []string{"truth-table reference is correct", "weights and coefficients above 3 are not covered"}
}
func (c04) Decode(raw json.RawMessage) (core.Case, error) {
	var c MaxCase
	err := json.Unmarshal(raw, &c)
	return c, err
}

func mconAlphabet(n int, level int) []MCon {
	var out []MCon
	for _, l := range litSets(n, 1, n) {
		out = append(out, MCon{L: l, K: 1}) // clause
	}
	for _, l := range litSets(n, 2, n) {
		for k := 2; k <= len(l); k++ {
			out = append(out, MCon{L: l, K: k}) // cardinality, implicit unit coefficients
		}
	}
	if level >= 1 {
		for _, l := range litSets(n, 2, n) {
			for _, w := range weightVectors(len(l), 1, 2) {
				if absSum(w) == len(w) && level < 2 {
					continue
				}
				for k := 1; k <= absSum(w); k++ {
					out = append(out, MCon{L: l, C: w, K: k})
				}
			}
		}
	}
	return out
}

func withWeights(al []MCon, ws []int) []MCon {
	var out []MCon
	for _, a := range al {
		for _, w := range ws {
			b := a
			b.W = w
			out = append(out, b)
		}
	}
	return out
}

func renderWCNF(n int, hard [][]int, soft [][]int, softw []int, top int, order []int) string {
	var sb strings.Builder
	if top > 0 {
		fmt.Fprintf(&sb, "p wcnf %d %d %d\n", n, len(hard)+len(soft), top)
	} else {
		fmt.Fprintf(&sb, "p wcnf %d %d\n", n, len(hard)+len(soft))
	}
	type ln struct {
		w int
		c []int
	}
	var lines []ln
	for _, c := range hard {
		lines = append(lines, ln{top, c})
	}
	for i, c := range soft {
		lines = append(lines, ln{softw[i], c})
	}
	for _, i := range order {
		fmt.Fprintf(&sb, "%d ", lines[i].w)
		for _, l := range lines[i].c {
			fmt.Fprintf(&sb, "%d ", l)
		}
		sb.WriteString("0\n")
	}
	return sb.String()
}

func (c04) Enumerate(tier string, seed int64, yield func(string, core.Case) bool) {
	thorough := tier == "thorough"
	perms := func(k int) [][]int {
		var out [][]int
		permutations(k, func(p []int) bool { out = append(out, append([]int{}, p...)); return true })
		return out
	}
	emitAPI := func(fam string, cs []MCon) bool {
		soft := 0
		for _, c := range cs {
			if c.W > 0 {
				soft++
			}
		}
		for _, p := range perms(soft) {
			if !yield(fam, MaxCase{API: true, Cons: append([]MCon{}, cs...), Perm: p, N: 3}) {
				return false
			}
		}
		return true
	}
	full := withWeights(mconAlphabet(3, 1), []int{0, 1, 2, 3})
	if thorough {
		full = withWeights(mconAlphabet(3, 2), []int{0, 1, 2, 3})
	}
	for _, a := range full {
		if !emitAPI("api1", []MCon{a}) {
			return
		}
	}
	mid := withWeights(mconAlphabet(3, 1), []int{0, 1, 2})
	if thorough {
		mid = withWeights(mconAlphabet(3, 2), []int{0, 1, 2, 3})
	}
	for _, a := range mid {
		for _, b := range mid {
			if !emitAPI("api2", []MCon{a, b}) {
				return
			}
		}
	}
	// PB constraints with coefficients of either sign (and zero)
	var negs []MCon
	for _, l := range litSets(3, 2, 3) {
		for _, w := range weightVectors(len(l), -2, 2) {
			hasNeg := false
			for _, x := range w {
				if x <= 0 {
					hasNeg = true
				}
			}
			if !hasNeg {
				continue
			}
			for k := -2; k <= absSum(w); k++ {
				negs = append(negs, MCon{L: l, C: w, K: k})
			}
		}
	}
	for _, a := range withWeights(negs, []int{0, 1, 2}) {
		if !emitAPI("api1neg", []MCon{a}) {
			return
		}
	}
	cl2 := withWeights(mconAlphabet(3, 0), []int{0, 1})
	for i, a := range withWeights(negs, []int{0, 2}) {
		if !thorough && i%7 != 0 {
			continue
		}
		for _, b := range cl2 {
			if !emitAPI("api2neg", []MCon{a, b}) {
				return
			}
		}
	}
	small := withWeights(mconAlphabet(2, 0), []int{0, 1, 2})
	if thorough {
		small = withWeights(mconAlphabet(3, 0), []int{0, 1, 2})
	}
	for _, a := range small {
		for _, b := range small {
			for _, c := range small {
				if !emitAPI("api3", []MCon{a, b, c}) {
					return
				}
			}
		}
	}
	// three soft cardinality constraints (implicit unit coefficients, degree >= 2) of every size pattern
	// over 3 variables: constructions that share or reuse per-constraint buffers only go wrong from the
	// third constraint on and only when the sizes shrink and grow again
	{
		var cards []MCon
		for _, l := range litSets(3, 2, 3) {
			for k := 2; k <= len(l); k++ {
				cards = append(cards, MCon{L: l, K: k})
			}
		}
		for _, ws := range [][3]int{{1, 1, 1}, {1, 2, 3}} {
			for _, a := range cards {
				for _, b := range cards {
					for _, c := range cards {
						a.W, b.W, c.W = ws[0], ws[1], ws[2]
						if !emitAPI("api3card", []MCon{a, b, c}) {
							return
						}
					}
				}
			}
		}
	}
	// WCNF
	cl := litSets(2, 1, 2)
	maxC := 3
	for m := 0; m <= maxC; m++ {
		ok := sequences(len(cl), m, func(idx []int) bool {
			clauses := pick(cl, idx)
			// every split hard/soft and every weight vector
			for split := 0; split < 1<<uint(m); split++ {
				var hard, soft [][]int
				for i, c := range clauses {
					if split>>uint(i)&1 == 1 {
						hard = append(hard, c)
					} else {
						soft = append(soft, c)
					}
				}
				for _, sw := range weightVectors(len(soft), 1, 3) {
					sum := absSum(sw)
					tops := []int{sum + 1, 4}
					if len(hard) == 0 {
						tops = []int{0, sum + 1, 4, 2}
					}
					for _, top := range tops {
						// soft weights must stay below top for the split to be what the text says
						okTop := true
						for _, w := range sw {
							if top > 0 && w >= top {
								okTop = false
							}
						}
						if !okTop {
							continue
						}
						order := make([]int, m)
						for i := range order {
							order[i] = i
						}
						for _, decl := range []int{2, 3} {
							for _, ch := range []bool{false, true} {
								txt := renderWCNF(decl, hard, soft, sw, top, order)
								if !yield("wcnf", MaxCase{Text: txt, N: decl, Hard: hard, Soft: soft, SoftW: sw, Chan: ch}) {
									return false
								}
							}
						}
						if m >= 2 && thorough { // soft lines first
							rev := make([]int, m)
							for i := range rev {
								rev[i] = m - 1 - i
							}
							txt := renderWCNF(2, hard, soft, sw, top, rev)
							if !yield("wcnf-rev", MaxCase{Text: txt, N: 2, Hard: hard, Soft: soft, SoftW: sw}) {
								return false
							}
						}
					}
				}
			}
			return true
		})
		if !ok {
			return
		}
	}
}

func mconRef(c MCon) tt.Constr {
	k := tt.Constr{Lits: append([]int{}, c.L...), K: c.K}
	if c.C != nil {
		k.Coefs = append([]int{}, c.C...)
	}
	return k
}

func (c04) Exec(cc core.Case, r *core.Rec) []core.Failure {
	c := cc.(MaxCase)
	r.Execution()
	var fs []core.Failure
	if c.API {
		add := func(kind, detail string) { fs = append(fs, core.Failure{Sig: "maxsat.Solve/" + kind, Detail: detail}) }
		// reference
		n := 0
		for _, k := range c.Cons {
			for _, l := range k.L {
				if l < 0 {
					l = -l
				}
				if l > n {
					n = l
				}
			}
		}
		// names actually used, in order of first appearance, like a caller would see them
		used := map[int]bool{}
		for _, k := range c.Cons {
			for _, l := range k.L {
				if l < 0 {
					l = -l
				}
				used[l] = true
			}
		}
		var hard []tt.Constr
		for _, k := range c.Cons {
			if k.W == 0 {
				hard = append(hard, mconRef(k))
			}
		}
		hm := tt.Models(n, hard)
		costOf := func(a uint32) int {
			s := 0
			for _, k := range c.Cons {
				if k.W > 0 && !mconRef(k).Holds(a) {
					s += k.W
				}
			}
			return s
		}
		best, sat := 0, false
		hm.Each(func(a uint32) {
			if x := costOf(a); !sat || x < best {
				best, sat = x, true
			}
		})
		// build
		var constrs []maxsat.Constr
		hasCard := false
		// A caller may well use one coefficient slice (and one literal slice) for several constraints:
		// constraints with equal vectors share the same backing array here.
		sharedC := map[string][]int{}
		sharedL := map[string][]maxsat.Lit{}
		for _, k := range c.Cons {
			lits := make([]maxsat.Lit, len(k.L))
			for i, l := range k.L {
				if l > 0 {
					lits[i] = maxsat.Var(mxNames[l-1])
				} else {
					lits[i] = maxsat.Not(mxNames[-l-1])
				}
			}
			var coeffs []int
			if k.C != nil {
				key := fmt.Sprint(k.C)
				if sharedC[key] == nil {
					sharedC[key] = append([]int{}, k.C...)
				}
				coeffs = sharedC[key]
			} else if k.K > 1 && k.W > 0 {
				hasCard = true
			}
			lkey := fmt.Sprint(k.L)
			if sharedL[lkey] == nil {
				sharedL[lkey] = lits
			}
			constrs = append(constrs, mxConstr(sharedL[lkey], coeffs, k.K, k.W))
		}
		perm := c.Perm
		maxsat.VerifCostPerm = func(k int) []int {
			if len(perm) == k {
				return perm
			}
			id := make([]int, k)
			for i := range id {
				id[i] = i
			}
			return id
		}
		defer func() { maxsat.VerifCostPerm = nil }()
		var model maxsat.Model
		var cost int
		pn, ab := guard(func() {
			pb := maxsat.New(constrs...)
			model, cost = pb.Solve()
		})
		trig := ""
		if hasCard {
			trig = "/soft-cardinality"
		}
		if pn != "" {
			add("panic@"+lastPanicSite+trig, pn)
			return fs
		}
		if ab {
			add("nontermination"+trig, "step budget exceeded")
			return fs
		}
		if sat && best > 0 || !sat {
			r.NonTrivial()
		}
		r.Outcome(fmt.Sprintf("api/sat=%v/best=%d/cons=%d", sat, min3(best), len(c.Cons)))
		if !sat {
			if model != nil || cost != -1 {
				add("answer-on-unsatisfiable-hard-part"+trig, fmt.Sprintf("model %v cost %d although the hard constraints have no model", model, cost))
			}
			return fs
		}
		if model == nil {
			add("unsat-on-satisfiable"+trig, fmt.Sprintf("nil model (cost %d) although the hard constraints have a model", cost))
			return fs
		}
		var keys []string
		for k := range model {
			keys = append(keys, k)
		}
		sort.Strings(keys)
		var want []string
		for v := range used {
			want = append(want, mxNames[v-1])
		}
		sort.Strings(want)
		if fmt.Sprint(keys) != fmt.Sprint(want) {
			add("model-keys"+trig, fmt.Sprintf("model covers %v, the user's variables are %v", keys, want))
			return fs
		}
		var a uint32
		for v := range used {
			if model[mxNames[v-1]] {
				a |= 1 << uint(v-1)
			}
		}
		// variables 1..n not used (gaps) are free: reference constraints do not mention them
		if !hm.Has(a) {
			add("hard-constraint-violated"+trig, fmt.Sprintf("model %v violates a hard constraint", model))
			return fs
		}
		if cm := costOf(a); cm != cost {
			add("cost-mismatch"+trig, fmt.Sprintf("reported cost %d, the model %v violates soft constraints of total weight %d", cost, model, cm))
			return fs
		}
		if cost != best {
			add("not-optimal"+trig, fmt.Sprintf("reported cost %d, the minimum is %d", cost, best))
		}
		r.Sample("maxsat-api", 2, c)
		return fs
	}
	// WCNF
	add := func(kind, detail string) {
		fs = append(fs, core.Failure{Sig: "ParseWCNF.Optimal/" + kind, Detail: detail})
	}
	hm := tt.Models(c.N, clausesToTT(c.Hard))
	costOf := func(a uint32) int {
		s := 0
		for i, cl := range c.Soft {
			if !tt.Clause(cl...).Holds(a) {
				s += c.SoftW[i]
			}
		}
		return s
	}
	best, sat := 0, false
	hm.Each(func(a uint32) {
		if x := costOf(a); !sat || x < best {
			best, sat = x, true
		}
	})
	var res solver.Result
	var stream []solver.Result
	closed := false
	var perr error
	pn, ab := guard(func() {
		s, err := maxsat.ParseWCNF(strings.NewReader(c.Text))
		if err != nil {
			perr = err
			return
		}
		if !c.Chan {
			res = s.Optimal(nil, nil)
			return
		}
		ch := make(chan solver.Result, 64)
		done := make(chan struct{})
		go func() {
			for x := range ch {
				stream = append(stream, x)
			}
			closed = true
			close(done)
		}()
		res = s.Optimal(ch, nil)
		<-done
	})
	mode := "nil"
	if c.Chan {
		mode = "chan"
	}
	if pn != "" {
		add(mode+"/panic@"+lastPanicSite, pn)
		return fs
	}
	if ab {
		add(mode+"/nontermination", "step budget exceeded")
		return fs
	}
	if perr != nil {
		add("parse-error", perr.Error())
		return fs
	}
	if sat && best > 0 || !sat {
		r.NonTrivial()
	}
	r.Outcome(fmt.Sprintf("wcnf/%s/sat=%v/best=%d", mode, sat, min3(best)))
	check := func(what string, x solver.Result, final bool) {
		if !sat {
			if x.Status != solver.Unsat {
				add(mode+"/"+what+"answer-on-unsatisfiable-hard-part", fmt.Sprintf("status %v although the hard clauses have no model", x.Status))
			}
			return
		}
		if x.Status != solver.Sat {
			add(mode+"/"+what+"unsat-on-satisfiable", fmt.Sprintf("status %v although the hard clauses have a model", x.Status))
			return
		}
		if len(x.Model) != c.N {
			add(mode+"/"+what+"model-length", fmt.Sprintf("model has %d values, %d variables declared (relaxation variables must not leak)", len(x.Model), c.N))
			return
		}
		a := tt.FromBools(x.Model)
		if !hm.Has(a) {
			add(mode+"/"+what+"hard-clause-violated", fmt.Sprintf("model %v", x.Model))
			return
		}
		if cm := costOf(a); cm != x.Weight {
			add(mode+"/"+what+"cost-mismatch", fmt.Sprintf("reported %d, model %v violates soft clauses of weight %d", x.Weight, x.Model, cm))
			return
		}
		if final && x.Weight != best {
			add(mode+"/"+what+"not-optimal", fmt.Sprintf("reported %d, minimum %d", x.Weight, best))
		}
	}
	check("", res, true)
	if c.Chan && len(fs) == 0 {
		if !closed {
			add("chan/channel-not-closed", "")
		}
		for i, x := range stream {
			check("stream/", x, false)
			if i > 0 && x.Status == solver.Sat && x.Weight >= stream[i-1].Weight {
				add("chan/stream/not-decreasing", fmt.Sprintf("%d then %d", stream[i-1].Weight, x.Weight))
			}
		}
		if n := len(stream); n == 0 {
			add("chan/empty-stream", "nothing delivered")
		} else if len(fs) == 0 && (stream[n-1].Status != res.Status || stream[n-1].Weight != res.Weight || fmt.Sprint(stream[n-1].Model) != fmt.Sprint(res.Model)) {
			add("chan/stream/last-differs-from-returned", fmt.Sprintf("last %v returned %v", stream[n-1], res))
		}
	}
	r.Sample("wcnf", 2, c)
	return fs
}

func init() { core.Register(c04{}) }

// EnumWCNF yields the WCNF texts of the C04 family (without channel variants).
func EnumWCNF(tier string, yield func(text string, n int, hard, soft [][]int, softw []int) bool) {
	c04{}.Enumerate(tier, 1, func(fam string, cc core.Case) bool {
		m := cc.(MaxCase)
		if m.API || m.Chan {
			return true
		}
		return yield(m.Text, m.N, m.Hard, m.Soft, m.SoftW)
	})
}

// mxConstr states one constraint through the documented constructor functions of package maxsat (the struct
// literal is used only for the shape no constructor produces exactly: none at present).
func mxConstr(lits []maxsat.Lit, coeffs []int, atLeast, weight int) maxsat.Constr {
	clause := coeffs == nil && atLeast == 1
	switch {
	case clause && weight == 0:
		return maxsat.HardClause(lits...)
	case clause && weight == 1:
		return maxsat.SoftClause(lits...)
	case clause:
		return maxsat.WeightedClause(lits, weight)
	case weight == 0:
		return maxsat.HardPBConstr(lits, coeffs, atLeast)
	case weight == 1:
		return maxsat.SoftPBConstr(lits, coeffs, atLeast)
	}
	return maxsat.WeightedPBConstr(lits, coeffs, atLeast, weight)
}
