package scen

import (
	"encoding/json"
	"fmt"
	"strings"

	"github.com/crillab/gophersat/solver"

	"verifmc/internal/core"
	"verifmc/internal/tt"
)

// C05 — model counting and enumeration are exact.
// Modes: count | enum-nil | enum-chan | solve-count | solve-enum

type c05 struct{}

func (c05) ID() string    { return "C05" }
func (c05) Level() string { return "exploration" }
func (c05) Rule() string {
	return "cases = problems (CNF families T2/S3 with declared-but-unused variables, S4, L6, conflict-rich seeds; the empty problem over 0..3 variables; cardinality/PB constraint sets of C02 restricted to singles, card pairs and the decreasing-coefficient family; MO, a seeded catalogue of weighted PB problems over 8..12 variables with all one-edit neighbours) x mode (CountModels, Enumerate without channel, Enumerate with channel, each also after a prior Solve) x heuristic choice list (<=1 deviation: decision steering, forced restart or database reduction between models). Oracle: truth-table model set over the declared variables: count, number of delivered models, delivered multiset (each model exactly once), channel closed. Non-trivial = the reference has at least 2 models or the run met a conflict."
}
func (c05) Assumptions() []string {
	return []string{"truth-table reference is correct", "the model channel is buffered larger than twice the assignment space; concurrency of the stream is C20's subject"}
}
func (c05) Decode(raw json.RawMessage) (core.Case, error) {
	var c ProbCase
	err := json.Unmarshal(raw, &c)
	return c, err
}

var c05Modes = []string{"count", "enum-nil", "enum-chan", "solve-count", "solve-enum"}

func (c05) Enumerate(tier string, seed int64, yield func(string, core.Case) bool) {
	thorough := tier == "thorough"
	emit := func(fam string, p Prob, dev int, modes []string) bool {
		for _, m := range modes {
			if !yield(fam, ProbCase{P: p, Dev: dev, Mode: m}) {
				return false
			}
		}
		return true
	}
	// empty problem over n = 0..3 declared variables, both declaring front ends
	for n := 0; n <= 3; n++ {
		if !emit("empty", cnfProb("slicenb", nil, n, n), 1, c05Modes) || !emit("empty", cnfProb("dimacs", nil, n, n), 1, c05Modes) {
			return
		}
	}
	if !emit("empty", cnfProb("slice", nil, 0, 0), 1, c05Modes) {
		return
	}
	three := []string{"count", "enum-chan", "solve-count"}
	t2m := 2
	if thorough {
		t2m = 3
	}
	if !famT2(t2m, -1, func(f [][]int, n int) bool {
		return emit("T2", cnfProb("slice", f, n, 0), 1, c05Modes) && emit("T2+unused", cnfProb("slicenb", f, n, n+1), 1, three) &&
			emit("T2dimacs", cnfProb("dimacs", f, n, n+1), 0, three[:2])
	}) {
		return
	}
	s3m := 3
	if thorough {
		s3m = 4
	}
	if !famS3(2, s3m, func(f [][]int, n int) bool {
		return emit("S3", cnfProb("slice", f, n, 0), 1, three) && emit("S3+unused", cnfProb("slicenb", f, n, n+1), 0, three[:2])
	}) {
		return
	}
	s4m := 3
	if thorough {
		s4m = 4
	}
	if !famS4(1, s4m, func(f [][]int, n int) bool { return emit("S4", cnfProb("slicenb", f, n, n), 1, three[:2]) }) {
		return
	}
	if !famL6(5, 1, func(f [][]int, n int) bool { return emit("L6", cnfProb("slicenb", f, n, n), 0, three[:2]) }) {
		return
	}
	for _, s := range seedsM(seed, tier) {
		n := maxVarCNF(s.F)
		if n > 12 {
			continue
		}
		if !emit("M/"+s.Name, cnfProb("slicenb", s.F, n, n), 1, three) {
			return
		}
	}
	nr := 12
	if thorough {
		nr = 120
	}
	if !famR(seed, nr, func(name string, f [][]int, n int) bool {
		if n > 8 {
			return true
		}
		return emit("R", cnfProb("slicenb", f, n, n), 1, three[:2])
	}) {
		return
	}
	// MO: the weighted PB problems of the optimisation catalogue (8..12 variables), cost function ignored
	{
		nseeds := 200
		if thorough {
			nseeds = 600
		}
		mi := 0
		if !enumOptCatalogue(seed, nseeds, func(name string, p Prob) bool {
			if strings.Contains(name, "-cost") {
				return true
			}
			mi++
			q := p
			q.CostL, q.CostW = nil, nil
			return emit(name, q, 0, three[mi%3:mi%3+1])
		}) {
			return
		}
	}
	enumConstraintSets(tier, func(fam string, p Prob) bool {
		switch fam {
		case "card1", "card1u", "pb1", "dec":
			return emit(fam, p, 1, three)
		case "card2":
			return emit(fam, p, 0, three[:2])
		case "pb1u":
			return emit(fam, p, 0, three[:1])
		}
		return true
	})
}

type countObs struct {
	probObs
	count     int
	delivered [][]bool
	closed    bool
	hasChan   bool
}

func runCount(c ProbCase) (o countObs) {
	var pb *solver.Problem
	if pn, v := core.Safely(func() { pb, o.buildErr = c.P.Build() }); pn {
		o.buildPanic = v
		return
	}
	if o.buildErr != nil {
		return
	}
	o.parseStat = pb.Status
	o.nbVars = pb.NbVars
	o.panicked, o.aborted = guard(func() {
		s := solver.New(pb)
		if c.Mode == "solve-count" || c.Mode == "solve-enum" {
			s.Solve()
		}
		switch c.Mode {
		case "count", "solve-count":
			o.count = s.CountModels()
		case "enum-nil":
			o.count = s.Enumerate(nil, nil)
		default:
			n := pb.NbVars
			if n > 16 {
				n = 16
			}
			ch := make(chan []bool, 2*(1<<uint(n))+8)
			o.hasChan = true
			o.count = s.Enumerate(ch, nil)
		loop:
			for {
				select {
				case m, ok := <-ch:
					if !ok {
						o.closed = true
						break loop
					}
					o.delivered = append(o.delivered, m)
				default:
					break loop
				}
			}
		}
		o.stats = s.Stats
	})
	return
}

func (c05) Exec(cc core.Case, r *core.Rec) []core.Failure {
	c := cc.(ProbCase)
	ref := c.P.Ref()
	full := tt.Models(c.P.Declared(), ref)
	return exploreProb(r, c.Dev, c, "count", func(choices []int) []core.Failure {
		o := runCount(c)
		countStats(r, o.stats)
		sig := func(kind string) string { return c.P.Front + "/" + c.Mode + "/" + kind }
		var fs []core.Failure
		add := func(kind, detail string) { fs = append(fs, core.Failure{Sig: sig(kind), Detail: detail}) }
		switch {
		case o.buildPanic != "":
			add("build-panic", o.buildPanic)
			return fs
		case o.buildErr != nil:
			add("build-error", o.buildErr.Error())
			return fs
		case o.panicked != "":
			add("panic", o.panicked)
			return fs
		case o.aborted:
			add("nontermination", "step budget exceeded")
			return fs
		}
		// declared variables: what the parser reports, provided the caller's variables it
		// dropped are unconstrained (they only occur in trivially true constraints).
		models := full
		if o.nbVars < full.N {
			proj := tt.Project(full, o.nbVars)
			if proj.Count()<<uint(full.N-o.nbVars) != full.Count() {
				add("dropped-constrained-variable", fmt.Sprintf("parser kept %d variables but a dropped variable is constrained", o.nbVars))
				return fs
			}
			models = proj
		} else if o.nbVars > full.N {
			add("too-many-variables", fmt.Sprintf("parser reports %d variables, %d declared", o.nbVars, full.N))
			return fs
		}
		want := models.Count()
		r.Outcome(fmt.Sprintf("%s/models=%d/confl=%d", c.Mode, min3(want), min3(o.stats.NbConflicts)))
		if want >= 2 || o.stats.NbConflicts > 0 {
			r.NonTrivial()
		}
		if o.count != want {
			add("wrong-count", fmt.Sprintf("returned %d, the problem has %d models over %d variables", o.count, want, models.N))
		}
		if o.hasChan {
			if !o.closed {
				add("channel-not-closed", "the model channel was not closed when Enumerate returned")
			}
			seen := tt.Empty(models.N)
			for _, m := range o.delivered {
				if len(m) != models.N {
					add("model-length", fmt.Sprintf("delivered model has %d values, %d variables", len(m), models.N))
					return fs
				}
				a := tt.FromBools(m)
				if !models.Has(a) {
					add("delivered-non-model", fmt.Sprintf("delivered %v which is not a model", m))
					return fs
				}
				if seen.Has(a) {
					add("duplicate-model", fmt.Sprintf("delivered %v twice", m))
					return fs
				}
				seen.Add(a)
			}
			if len(fs) == 0 && len(o.delivered) != want {
				add("missing-model", fmt.Sprintf("delivered %d of %d models", len(o.delivered), want))
			}
		}
		return fs
	})
}

func init() { core.Register(c05{}) }
