package scen

import (
	"encoding/json"

	"github.com/crillab/gophersat/solver"

	"verifmc/internal/choice"
	"verifmc/internal/core"
	"verifmc/internal/tt"
)

type c06 struct{}

func (c06) ID() string    { return "C06" }
func (c06) Level() string { return "exploration" }
func (c06) Rule() string {
	return "cases = every CNF of the families T2, D3, LL, B3 (length 4), S3, S4, L6, M (as C01), plus CPA (the configuration of gophersat -cp -certified: DetectAtMostOne, cutting planes and a certificate, on the pigeonhole members of M and a 13-clause regression instance with all one-edit neighbours) x entry point x learned-clause limit (default / 1 / 2); each case is executed with certificate generation on (lines drained from the certificate channel) once per heuristic choice list up to the deviation bound, and once with certification off under the same choice list; every certificate is replayed by an independent RUP checker and every line is also checked for implication against the truth table. A case is non-trivial when its certificate has at least one line."
}
func (c06) Assumptions() []string {
	return []string{
		"the independent RUP checker (internal/scen/rup.go) and the truth-table reference are correct",
		"certificates written to stdout (CertChan nil) are not exercised here, only through the command line check C19",
	}
}
func (c06) Decode(raw json.RawMessage) (core.Case, error) {
	var c CNFCase
	err := json.Unmarshal(raw, &c)
	return c, err
}
func (c06) Enumerate(tier string, seed int64, yield func(string, core.Case) bool) {
	enumerateCNF(tier, seed, true, yield)
}

func (c06) Exec(cc core.Case, r *core.Rec) []core.Failure {
	c := cc.(CNFCase)
	models := tt.Models(c.declared(), clausesToTT(c.F))
	var fails []core.Failure
	opts := choice.Std(c.Dev)
	opts.NbMax = c.NbMax
	opts.Stop = r.Expired
	st := choice.Explore(opts, r.ReplayChoices, func(ctl *choice.Ctl, choices []int) bool {
		ctl.OnState = r.State
		r.Execution()
		o := runCNF(c, true)
		countStats(r, o.stats)
		r.Count("certificate_lines", int64(len(o.cert)))
		if len(o.cert) > 0 {
			r.NonTrivial()
		}
		if o.status == solver.Unsat && len(o.cert) > 0 {
			r.Count("unsat_certificates_replayed", 1)
		}
		r.Outcome(cnfOutcome(o))
		// the uncertified twin under the same choice list
		plain := runPlainTwin(c, opts, choices)
		r.Execution()
		for _, f := range judgeCert(c, o, plain, models) {
			f.Choices = append([]int{}, choices...)
			fails = append(fails, f)
		}
		return len(fails) == 0
	})
	countExplore(r, st)
	if st.Diverged {
		fails = append(fails, core.Failure{Sig: "harness/choice-divergence", Detail: "a recorded choice was out of range on replay of its own prefix"})
	}
	if st.NonDefault > 0 {
		r.Sample("cnf-certified-with-choices", 2, map[string]interface{}{"case": c, "choices": st.SampleTrace})
	}
	r.Sample("cnf-certified", 2, c)
	return fails
}

// runPlainTwin runs the same case and choice list with certification off.
func runPlainTwin(c CNFCase, o choice.Opts, choices []int) (obs cnfObs) {
	choice.Explore(o, append([]int{}, choices...), func(ctl *choice.Ctl, _ []int) bool {
		obs = runCNF(c, false)
		return true
	})
	return
}

func init() { core.Register(c06{}) }
