package scen

import (
	"encoding/json"
	"fmt"
	"sort"
	"strings"

	"github.com/crillab/gophersat/explain"

	"verifmc/internal/core"
	"verifmc/internal/tt"
)

// C07 — extracted MUSes are unsatisfiable, minimal sub-multisets of the input.

type MusCase struct {
	F      [][]int `json:"f"`
	N      int     `json:"n"`
	Method string  `json:"method"`         // MUS | MUSDeletion | MUSInsertion | MUSMaxSat | UnsatSubset
	Then   string  `json:"then,omitempty"` // second extraction on the same Problem value
	Dev    int     `json:"dev"`
}

type c07 struct{}

func (c07) ID() string    { return "C07" }
func (c07) Level() string { return "exploration" }
func (c07) Rule() string {
	return "cases = CNF problems read by explain.ParseCNF: T2 (n=2, dirty clauses: empty, repeated literals, tautologies; <=3 clauses), all S3 multisets of <=4 clauses (5 thorough), S4 multisets, and the 'cores' family (unions of two minimal cores that overlap or are disjoint, plus one redundant clause, in several clause orders, with repeated clauses and trivially conflicting units) x method {MUS, MUSDeletion, MUSInsertion, MUSMaxSat} x heuristic choice list (<=1 deviation across the dozens of solver calls of one extraction). Oracle: satisfiable input => error and nil result; unsatisfiable => result is a sub-multiset of the input, unsatisfiable by truth table, and removing any single clause makes it satisfiable; the receiver's Clauses/NbVars/NbClauses are deep-equal to their values before the call, and a second extraction on the same Problem value (every ordered pair of methods, on T2 with <=2 clauses, S3 with <=3 clauses — satisfiable problems included: an error both times —, the cores and conflict-rich families) is judged by the same oracle, and so is an extraction applied to the problem the first extraction returned. Non-trivial = the input is unsatisfiable and has more clauses than the returned MUS."
}
func (c07) Assumptions() []string {
	return []string{"truth-table reference is correct", "problems are built through explain.ParseCNF from a canonical DIMACS rendering with exact header counts"}
}
func (c07) Decode(raw json.RawMessage) (core.Case, error) {
	var c MusCase
	err := json.Unmarshal(raw, &c)
	return c, err
}

var musMethods = []string{"MUS", "MUSDeletion", "MUSInsertion", "MUSMaxSat"}

func rename(f [][]int, m map[int]int) [][]int {
	g := copyCNF(f)
	for _, c := range g {
		for i, l := range c {
			if l > 0 {
				c[i] = m[l]
			} else {
				c[i] = -m[-l]
			}
		}
	}
	return g
}

// famCores: unions of two minimal unsatisfiable cores.
func famCores(thorough bool, yield func(f [][]int, n int) bool) bool {
	tmpl := [][][]int{
		{{1}, {-1}},
		{{1, 2}, {-1}, {-2}},
		{{1, 2}, {1, -2}, {-1, 2}, {-1, -2}},
		{{1}, {-1, 2}, {-2}},
		{{1, 2, 3}, {-1}, {-2}, {-3}},
		{{1, 2}, {-1, 2}, {-2, 3}, {-3}},
	}
	renames := []map[int]int{{1: 1, 2: 2, 3: 3}, {1: 2, 2: 3, 3: 1}, {1: 3, 2: 4, 3: 5}, {1: 4, 2: 5, 3: 6}}
	extras := [][][]int{nil, {{1, 2}}, {{-1, 3}}, {{1}}, {{2, -3, 4}}}
	for i, a := range tmpl {
		for j, b := range tmpl {
			for _, rn := range renames {
				for _, ex := range extras {
					f := append(copyCNF(a), rename(b, rn)...)
					f = append(f, copyCNF(ex)...)
					n := maxVarCNF(f)
					orders := [][][]int{f}
					// reversed, rotated, interleaved
					rev := copyCNF(f)
					for x, y := 0, len(rev)-1; x < y; x, y = x+1, y-1 {
						rev[x], rev[y] = rev[y], rev[x]
					}
					orders = append(orders, rev)
					if thorough || (i+j)%2 == 0 {
						rot := append(copyCNF(f[len(f)/2:]), copyCNF(f[:len(f)/2])...)
						orders = append(orders, rot)
						var inter [][]int
						for x := 0; x < len(f); x += 2 {
							inter = append(inter, append([]int{}, f[x]...))
						}
						for x := 1; x < len(f); x += 2 {
							inter = append(inter, append([]int{}, f[x]...))
						}
						orders = append(orders, inter)
					}
					for _, o := range orders {
						if !yield(o, n) {
							return false
						}
					}
				}
			}
		}
	}
	return true
}

func (c07) Enumerate(tier string, seed int64, yield func(string, core.Case) bool) {
	thorough := tier == "thorough"
	dev := 1
	emit := func(fam string, f [][]int, n int) bool {
		for _, m := range musMethods {
			if !yield(fam, MusCase{F: f, N: n, Method: m, Dev: dev}) {
				return false
			}
		}
		return true
	}
	// the caller's problem is left unchanged: a second extraction on the same value must be right too
	emitPairs := func(fam string, f [][]int, n int, d int) bool {
		for _, m1 := range append([]string{"UnsatSubset"}, musMethods[1:]...) {
			for _, m2 := range musMethods[1:] {
				if !yield(fam, MusCase{F: f, N: n, Method: m1, Then: m2, Dev: d}) {
					return false
				}
			}
		}
		return true
	}
	if !famT2(3, 3, func(f [][]int, n int) bool { return emit("T2", f, n) }) {
		return
	}
	s3 := 4
	if thorough {
		s3 = 5
	}
	if !famS3(0, s3, func(f [][]int, n int) bool { return emit("S3", f, n) }) {
		return
	}
	if thorough {
		if !famS4(4, 4, func(f [][]int, n int) bool { return emit("S4", f, n) }) {
			return
		}
	}
	if !famCores(thorough, func(f [][]int, n int) bool { return emit("cores", f, n) }) {
		return
	}
	// small problems, satisfiable ones included (an error the first time must be an error the second time)
	if !famT2(2, 2, func(f [][]int, n int) bool { return emitPairs("T2-twice", f, n, 0) }) {
		return
	}
	if !famS3(0, 3, func(f [][]int, n int) bool { return emitPairs("S3-twice", f, n, 0) }) {
		return
	}
	if !famCores(false, func(f [][]int, n int) bool { return emitPairs("cores-twice", f, n, 0) }) {
		return
	}
	if !famM(seed, tier, func(name string, f [][]int, n int) bool {
		if n > 12 {
			return true
		}
		// all neighbours of the small unsatisfiable seeds, the other seeds themselves
		if !strings.HasPrefix(name, "php32") && !strings.HasPrefix(name, "par3both") && !strings.HasPrefix(name, "php43-del") && !strings.HasPrefix(name, "php43-unit") && strings.Contains(name, "-") && !thorough {
			return true
		}
		return emitPairs("M-twice/"+name, f, n, 0)
	}) {
		return
	}
	for _, s := range seedsM(seed, tier) {
		n := maxVarCNF(s.F)
		if n > 12 {
			continue
		}
		if !emit("M/"+s.Name, s.F, n) {
			return
		}
	}
}

func clauseKey(c []int) string {
	d := append([]int{}, c...)
	sort.Ints(d)
	return fmt.Sprint(d)
}

func seqKey(c []int) string { return fmt.Sprint(c) }

func deepEqualCNF(a, b [][]int) bool {
	if len(a) != len(b) {
		return false
	}
	for i := range a {
		if len(a[i]) != len(b[i]) {
			return false
		}
		for j := range a[i] {
			if a[i][j] != b[i][j] {
				return false
			}
		}
	}
	return true
}

// judgeSubset checks sub-multiset (clauses compared as written, literal order included) and unsatisfiability.
func judgeSubset(method string, in [][]int, n int, res *explain.Problem, minimal bool) []core.Failure {
	var fs []core.Failure
	add := func(kind, detail string) { fs = append(fs, core.Failure{Sig: method + "/" + kind, Detail: detail}) }
	cnt := map[string]int{}
	for _, c := range in {
		cnt[seqKey(c)]++
	}
	got := res.Clauses
	for _, c := range got {
		k := seqKey(c)
		if cnt[k] == 0 {
			add("not-a-sub-multiset", fmt.Sprintf("clause %v occurs in the result more often than in the input (or not at all)", c))
			return fs
		}
		cnt[k]--
	}
	if maxVarCNF(got) > n {
		add("not-a-sub-multiset", "result mentions an undeclared variable")
		return fs
	}
	if !tt.Models(n, clausesToTT(got)).IsEmpty() {
		add("result-satisfiable", fmt.Sprintf("the returned clauses %v are satisfiable", got))
		return fs
	}
	if minimal {
		for i := range got {
			rest := append(copyCNF(got[:i]), copyCNF(got[i+1:])...)
			if tt.Models(n, clausesToTT(rest)).IsEmpty() {
				add("not-minimal", fmt.Sprintf("clause %v can be removed from the result %v, the rest is still unsatisfiable", got[i], got))
				return fs
			}
		}
	}
	return fs
}

// musTrigger classifies the input shape for not-minimal failures.
func musTrigger(f [][]int) string {
	seen := map[string]bool{}
	empty, dup, taut, replit := false, false, false, false
	for _, c := range f {
		if len(c) == 0 {
			empty = true
		}
		k := clauseKey(c)
		if seen[k] {
			dup = true
		}
		seen[k] = true
		lits := map[int]bool{}
		for _, l := range c {
			if lits[-l] {
				taut = true
			}
			if lits[l] {
				replit = true
			}
			lits[l] = true
		}
	}
	switch {
	case empty:
		return "input-has-empty-clause"
	case taut:
		return "input-has-tautology"
	case replit:
		return "input-has-repeated-literal"
	case dup:
		return "input-has-repeated-clause"
	}
	return "clean-input"
}

func runMUS(pb *explain.Problem, method string) (res *explain.Problem, err error) {
	switch method {
	case "MUS":
		return pb.MUS()
	case "MUSDeletion":
		return pb.MUSDeletion()
	case "MUSInsertion":
		return pb.MUSInsertion()
	case "MUSMaxSat":
		return pb.MUSMaxSat()
	case "UnsatSubset":
		return pb.UnsatSubset()
	}
	panic("bad method")
}

func (c07) Exec(cc core.Case, r *core.Rec) []core.Failure {
	c := cc.(MusCase)
	models := tt.Models(c.N, clausesToTT(c.F))
	sat := !models.IsEmpty()
	text := dimacs(c.F, c.N)
	return exploreProb(r, c.Dev, c, "mus", func(choices []int) []core.Failure {
		var fs []core.Failure
		add := func(kind, detail string) { fs = append(fs, core.Failure{Sig: c.Method + "/" + kind, Detail: detail}) }
		pb, err := explain.ParseCNF(strings.NewReader(text))
		if err != nil {
			return []core.Failure{{Sig: "explain.ParseCNF/error", Detail: err.Error()}}
		}
		before := copyCNF(pb.Clauses)
		nv, nc := pb.NbVars, pb.NbClauses
		if !deepEqualCNF(before, c.F) {
			// the line-based reader did not see the clauses as written: C13's subject
			r.Count("skipped_parse_mismatch", 1)
			return nil
		}
		var res *explain.Problem
		pn, ab := guard(func() { res, err = runMUS(pb, c.Method) })
		if pn != "" {
			add("panic@"+lastPanicSite, pn)
			return fs
		}
		if ab {
			add("nontermination", "step budget exceeded")
			return fs
		}
		if !deepEqualCNF(pb.Clauses, before) || pb.NbVars != nv || pb.NbClauses != nc {
			add("caller-problem-modified", fmt.Sprintf("after the call the receiver has Clauses=%v NbVars=%d NbClauses=%d, before %v %d %d", pb.Clauses, pb.NbVars, pb.NbClauses, before, nv, nc))
		}
		if sat {
			r.Outcome(c.Method + "/sat")
			if err == nil {
				add("no-error-on-satisfiable", fmt.Sprintf("returned %v and no error for a satisfiable problem", res))
			} else if res != nil {
				add("result-with-error", "a non-nil result is returned together with the error")
			}
			if c.Then != "" && len(fs) == 0 { // the same satisfiable Problem value asked again: still an error
				var res2 *explain.Problem
				var err2 error
				pn, ab = guard(func() { res2, err2 = runMUS(pb, c.Then) })
				pre := c.Then + "/second-call-on-same-problem"
				switch {
				case pn != "":
					add(pre+"/panic@"+lastPanicSite, "after "+c.Method+" (satisfiable problem): "+pn)
				case ab:
					add(pre+"/nontermination", "after "+c.Method)
				case err2 == nil:
					add(pre+"/no-error-on-satisfiable", fmt.Sprintf("after %s answered with an error, %s returned %v and no error for the same satisfiable problem", c.Method, c.Then, res2))
				case res2 != nil:
					add(pre+"/result-with-error", "after "+c.Method)
				}
				if !deepEqualCNF(pb.Clauses, before) || pb.NbVars != nv || pb.NbClauses != nc {
					add(pre+"/caller-problem-modified", "after "+c.Method)
				}
			}
			return fs
		}
		if err != nil {
			add("error-on-unsatisfiable", err.Error())
			return fs
		}
		if res == nil {
			add("nil-result", "nil result without error")
			return fs
		}
		if len(res.Clauses) < len(c.F) {
			r.NonTrivial()
		}
		r.Outcome(fmt.Sprintf("%s/unsat/in=%d/out=%d", c.Method, min3(len(c.F)), min3(len(res.Clauses))))
		for _, f := range judgeSubset(c.Method, c.F, c.N, res, c.Method != "UnsatSubset") {
			if strings.HasSuffix(f.Sig, "/not-minimal") && c.Method != "MUSMaxSat" {
				f.Sig += "/" + musTrigger(c.F)
			}
			fs = append(fs, f)
		}
		if c.Then != "" && len(fs) == 0 {
			// the returned problem is a CNF problem in its own right: an extraction applied to IT must be right too
			// (for a MUS: it is its own only unsatisfiable subset)
			in2 := copyCNF(res.Clauses)
			var res3 *explain.Problem
			var err3 error
			pn3, ab3 := guard(func() { res3, err3 = runMUS(res, c.Then) })
			pre := c.Then + "/on-the-problem-returned-by-" + c.Method
			switch {
			case pn3 != "":
				fs = append(fs, core.Failure{Sig: pre + "/panic@" + lastPanicSite, Detail: pn3})
			case ab3:
				fs = append(fs, core.Failure{Sig: pre + "/nontermination"})
			case err3 != nil:
				fs = append(fs, core.Failure{Sig: pre + "/error-on-unsatisfiable", Detail: err3.Error()})
			case res3 == nil:
				fs = append(fs, core.Failure{Sig: pre + "/nil-result"})
			default:
				fs = append(fs, judgeSubset(pre, in2, c.N, res3, true)...)
			}
			if len(fs) > 0 {
				return fs
			}
		}
		if c.Then == "" || len(fs) > 0 {
			return fs
		}
		// second extraction on the very same Problem value
		var res2 *explain.Problem
		var err2 error
		pn, ab = guard(func() { res2, err2 = runMUS(pb, c.Then) })
		pre := c.Then + "/second-call-on-same-problem"
		switch {
		case pn != "":
			fs = append(fs, core.Failure{Sig: pre + "/panic@" + lastPanicSite, Detail: "after " + c.Method + ": " + pn})
		case ab:
			fs = append(fs, core.Failure{Sig: pre + "/nontermination", Detail: "after " + c.Method})
		case err2 != nil:
			fs = append(fs, core.Failure{Sig: pre + "/error-on-unsatisfiable", Detail: "after " + c.Method + ": " + err2.Error()})
		case res2 == nil:
			fs = append(fs, core.Failure{Sig: pre + "/nil-result", Detail: "after " + c.Method})
		default:
			for _, f := range judgeSubset(pre, c.F, c.N, res2, true) {
				f.Detail = "after " + c.Method + ": " + f.Detail
				fs = append(fs, f)
			}
			if !deepEqualCNF(pb.Clauses, before) || pb.NbVars != nv || pb.NbClauses != nc {
				fs = append(fs, core.Failure{Sig: pre + "/caller-problem-modified", Detail: "after " + c.Method})
			}
		}
		return fs
	})
}

func init() { core.Register(c07{}) }
