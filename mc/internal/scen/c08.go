package scen

import (
	"encoding/json"
	"fmt"
	"strings"

	"github.com/crillab/gophersat/explain"
	"github.com/crillab/gophersat/solver"

	"verifmc/internal/core"
	"verifmc/internal/tt"
)

// C08 — the certificate checker only accepts consequences; unsat subsets are unsat.

type CertCase struct {
	F     [][]int  `json:"f"`
	N     int      `json:"n"`
	Lines []string `json:"lines"`             // certificate as text lines
	Entry string   `json:"entry"`             // reader | chan | subset
	Genu  bool     `json:"genuine,omitempty"` // derived from a genuine solver trace
}

type c08 struct{}

func (c08) ID() string    { return "C08" }
func (c08) Level() string { return "exploration" }
func (c08) Rule() string {
	return "cases = (CNF problem, certificate, entry point): problems from T2 (<=2 clauses, dirty clauses included) and S3 (<=3 clauses); certificates = every sequence of <=2 lines (3 thorough) over the clause alphabet of the problem's variables including the empty clause, plus comment and blank lines; every genuine solver certificate of the conflict-rich seeds and their neighbours, verbatim and with one literal dropped or flipped at every position; entry points Unsat(reader) and UnsatChan; UnsatSubset on the C07 inputs and on unit chains in front of a core that unit propagation cannot refute (every clause order). Oracle: valid => every line is implied (truth table), so valid with an empty clause => unsatisfiable; every sequence whose lines are all derivable by unit propagation (independent RUP checker, non-tautological lines) is accepted; the problem is deep-equal afterwards, a second check gives the same answer and an UnsatSubset call on the same value after the checks (and a second UnsatSubset call after a first) is still right; subset is a sub-multiset and unsatisfiable, ErrNotUnsat for satisfiable problems. Non-trivial = the certificate has at least one clause line and the checker had to propagate (problem has a non-unit clause)."
}
func (c08) Assumptions() []string {
	return []string{"truth-table reference and the independent RUP checker are correct", "certificate lines mention declared variables only (an out-of-range variable in a certificate is outside the stated domain)", "completeness is required for non-tautological lines only"}
}
func (c08) Decode(raw json.RawMessage) (core.Case, error) {
	var c CertCase
	err := json.Unmarshal(raw, &c)
	return c, err
}

func lineOf(c []int) string {
	var sb strings.Builder
	for _, l := range c {
		fmt.Fprintf(&sb, "%d ", l)
	}
	sb.WriteString("0")
	return sb.String()
}

// genuineCert runs the real solver with certification on and returns the emitted lines.
func genuineCert(f [][]int) (lines []string, st solver.Status) {
	pb := solver.ParseSlice(copyCNF(f))
	s := solver.New(pb)
	ch := make(chan string, 256)
	done := make(chan struct{})
	go func() {
		for l := range ch {
			lines = append(lines, l)
		}
		close(done)
	}()
	s.Certified = true
	s.CertChan = ch
	st = s.Solve()
	close(ch)
	<-done
	return
}

func (c08) Enumerate(tier string, seed int64, yield func(string, core.Case) bool) {
	thorough := tier == "thorough"
	maxLines := 2
	if thorough {
		maxLines = 3
	}
	both := func(fam string, f [][]int, n int, lines []string, genu bool) bool {
		return yield(fam, CertCase{F: f, N: n, Lines: lines, Entry: "reader", Genu: genu}) &&
			yield(fam, CertCase{F: f, N: n, Lines: lines, Entry: "chan", Genu: genu})
	}
	certAlpha := func(n int, maxLen int) []string {
		var out []string
		out = append(out, "0")
		for _, c := range litSets(n, 1, maxLen) {
			out = append(out, lineOf(c))
		}
		// a repeated-literal line, a comment and a blank line
		out = append(out, "1 1 0", "c comment", "")
		return out
	}
	allSeqs := func(fam string, f [][]int, n int, alpha []string, k int) bool {
		for m := 0; m <= k; m++ {
			ok := sequences(len(alpha), m, func(idx []int) bool {
				lines := make([]string, m)
				for i, x := range idx {
					lines[i] = alpha[x]
				}
				return both(fam, f, n, lines, false)
			})
			if !ok {
				return false
			}
		}
		return true
	}
	a2 := certAlpha(2, 2)
	if !famT2(2, -1, func(f [][]int, n int) bool {
		k := maxLines
		if len(f) == 2 && !thorough {
			k = 1
		}
		return allSeqs("T2", f, n, a2, k)
	}) {
		return
	}
	a3 := certAlpha(3, 2)
	a3full := certAlpha(3, 3)
	if !famS3(3, 3, func(f [][]int, n int) bool {
		switch len(f) {
		case 0, 1:
			return allSeqs("S3", f, n, a3full, 2)
		case 2:
			return allSeqs("S3", f, n, a3, 2)
		default:
			if thorough {
				return allSeqs("S3", f, n, a3, 2)
			}
			return allSeqs("S3", f, n, a3full, 1)
		}
	}) {
		return
	}
	// UnsatSubset on MUS inputs
	sub := func(fam string, f [][]int, n int) bool {
		return yield(fam, CertCase{F: f, N: n, Entry: "subset"})
	}
	if !famT2(3, 3, func(f [][]int, n int) bool { return sub("subset/T2", f, n) }) {
		return
	}
	if !famS3(0, 4, func(f [][]int, n int) bool { return sub("subset/S3", f, n) }) {
		return
	}
	if !famCores(thorough, func(f [][]int, n int) bool { return sub("subset/cores", f, n) }) {
		return
	}
	// unit chains in front of a core that unit propagation alone cannot refute: 1, -1 2, .., -(k-1) k, then
	// the four clauses -k +-x +-y, in every clause order (k<=2) or every rotation (k=3): extraction on a
	// fresh value, twice on the same value, and after certificate checks with the genuine trace
	for k := 1; k <= 3; k++ {
		var f [][]int
		f = append(f, []int{1})
		for i := 2; i <= k; i++ {
			f = append(f, []int{-(i - 1), i})
		}
		x, y := k+1, k+2
		f = append(f, []int{-k, x, y}, []int{-k, x, -y}, []int{-k, -x, y}, []int{-k, -x, -y})
		var orders [][][]int
		if k <= 2 {
			permutations(len(f), func(p []int) bool {
				o := make([][]int, len(f))
				for i, j := range p {
					o[i] = append([]int{}, f[j]...)
				}
				orders = append(orders, o)
				return true
			})
		} else {
			for rot := 0; rot < len(f); rot++ {
				orders = append(orders, append(copyCNF(f[rot:]), copyCNF(f[:rot])...))
			}
		}
		for oi, o := range orders {
			if !sub("subset/unitchain", o, k+2) {
				return
			}
			if oi%6 == 0 || thorough {
				if lines, _ := genuineCert(o); len(lines) > 0 && !both("genuine/unitchain", o, k+2, lines, true) {
					return
				}
			}
		}
	}
	// genuine traces and their one-literal corruptions
	famM(seed, tier, func(name string, f [][]int, n int) bool {
		if n > 12 {
			return true
		}
		lines, _ := genuineCert(f)
		if len(lines) == 0 {
			return true
		}
		if !both("genuine/"+name, f, n, lines, true) {
			return false
		}
		if strings.Contains(name, "-") && !thorough {
			return true // corruptions of the seeds only in quick
		}
		for i, ln := range lines {
			cl, _ := parseCertLine(ln)
			for j := range cl {
				drop := append(append([]int{}, cl[:j]...), cl[j+1:]...)
				flip := append([]int{}, cl...)
				flip[j] = -flip[j]
				for _, mod := range [][]int{drop, flip} {
					ls := append([]string{}, lines...)
					ls[i] = lineOf(mod)
					if !yield("corrupt/"+name, CertCase{F: f, N: n, Lines: ls, Entry: "reader", Genu: true}) {
						return false
					}
				}
			}
		}
		return true
	})
}

func runChecker(pb *explain.Problem, c CertCase) (valid bool, err error) {
	if c.Entry == "reader" {
		return pb.Unsat(strings.NewReader(strings.Join(c.Lines, "\n") + "\n"))
	}
	ch := make(chan string, len(c.Lines)+1)
	for _, l := range c.Lines {
		ch <- l
	}
	close(ch)
	return pb.UnsatChan(ch)
}

func (c08) Exec(cc core.Case, r *core.Rec) []core.Failure {
	c := cc.(CertCase)
	r.Execution()
	var fs []core.Failure
	pre := "Unsat(reader)"
	if c.Entry == "chan" {
		pre = "UnsatChan"
	} else if c.Entry == "subset" {
		pre = "UnsatSubset"
	}
	add := func(kind, detail string) { fs = append(fs, core.Failure{Sig: pre + "/" + kind, Detail: detail}) }
	pb, err := explain.ParseCNF(strings.NewReader(dimacs(c.F, c.N)))
	if err != nil {
		return []core.Failure{{Sig: "explain.ParseCNF/error", Detail: err.Error()}}
	}
	before := copyCNF(pb.Clauses)
	if !deepEqualCNF(before, c.F) {
		r.Count("skipped_parse_mismatch", 1)
		return nil
	}
	models := tt.Models(c.N, clausesToTT(c.F))
	if c.Entry == "subset" {
		var res *explain.Problem
		pn, ab := guard(func() { res, err = pb.UnsatSubset() })
		if pn != "" {
			add("panic@"+lastPanicSite, pn)
			return fs
		}
		if ab {
			add("nontermination", "step budget exceeded")
			return fs
		}
		if !deepEqualCNF(pb.Clauses, before) || pb.NbClauses != len(before) {
			add("caller-problem-modified", fmt.Sprintf("receiver clauses %v, before %v", pb.Clauses, before))
		}
		if models.IsEmpty() {
			r.NonTrivial()
			if err != nil {
				add("error-on-unsatisfiable", err.Error())
				return fs
			}
			if res == nil {
				add("nil-result", "nil result without error")
				return fs
			}
			r.Outcome(fmt.Sprintf("subset/unsat/in=%d/out=%d", min3(len(c.F)), min3(len(res.Clauses))))
			fs = append(fs, judgeSubset("UnsatSubset", c.F, c.N, res, false)...)
			// "leaves the problem reusable with the same answer": a second extraction on the same value
			if len(fs) == 0 {
				var res2 *explain.Problem
				var err2 error
				pn, _ := guard(func() { res2, err2 = pb.UnsatSubset() })
				r.Execution()
				switch {
				case pn != "":
					add("second-call/panic@"+lastPanicSite, pn)
				case err2 != nil:
					add("second-call/error-on-unsatisfiable", err2.Error())
				case res2 == nil:
					add("second-call/nil-result", "nil result without error")
				default:
					fs = append(fs, judgeSubset("UnsatSubset/second-call", c.F, c.N, res2, false)...)
				}
			}
		} else {
			r.Outcome("subset/sat")
			if err == nil {
				add("no-error-on-satisfiable", fmt.Sprintf("returned %v", res))
			} else if err != explain.ErrNotUnsat {
				add("wrong-error-on-satisfiable", err.Error())
			}
		}
		return fs
	}
	// certificate checking
	var valid, valid2 bool
	var err2 error
	pn, _ := guard(func() { valid, err = runChecker(pb, c) })
	if pn != "" {
		add("panic@"+lastPanicSite, pn)
		return fs
	}
	if !deepEqualCNF(pb.Clauses, before) || pb.NbClauses != len(before) {
		add("problem-not-restored", fmt.Sprintf("after checking the problem has clauses %v, before %v", pb.Clauses, before))
		return fs
	}
	pn, _ = guard(func() { valid2, err2 = runChecker(pb, c) })
	r.Execution()
	if pn != "" {
		add("panic-on-second-check@"+lastPanicSite, pn)
		return fs
	}
	if valid2 != valid || (err == nil) != (err2 == nil) {
		add("second-check-differs", fmt.Sprintf("first (%v,%v), second (%v,%v)", valid, err, valid2, err2))
	}
	// reference: parse the clause lines the way the documented format says (integers ending with 0;
	// lines not starting with an integer are ignored)
	var cls [][]int
	for _, ln := range c.Lines {
		fields := strings.Fields(ln)
		if len(fields) == 0 {
			continue
		}
		if _, e := fmt.Sscanf(fields[0], "%d", new(int)); e != nil {
			continue
		}
		cl, e := parseCertLine(ln)
		if e != nil {
			return fs // malformed line: not generated
		}
		cls = append(cls, cl)
	}
	allImplied, allRUP, hasTaut, hasEmpty := true, true, false, false
	db := newRupDB(c.N, c.F)
	for _, cl := range cls {
		if len(cl) == 0 {
			hasEmpty = true
		}
		seen := map[int]bool{}
		for _, l := range cl {
			if seen[-l] {
				hasTaut = true
			}
			seen[l] = true
		}
		if !tt.Implied(models, tt.Clause(cl...)) {
			allImplied = false
		}
		if allRUP && !db.isRUP(cl) {
			allRUP = false
		}
		db.add(cl)
		if len(cl) == 0 && c.Entry == "chan" {
			break // UnsatChan is documented to stop at the empty clause: later lines are not part of the verdict
		}
	}
	if len(cls) > 0 && len(c.F) > 0 {
		r.NonTrivial()
	}
	r.Outcome(fmt.Sprintf("%s/valid=%v/implied=%v/rup=%v/empty=%v", c.Entry, valid, allImplied, allRUP, hasEmpty))
	if err != nil {
		add("error-on-wellformed-certificate", err.Error())
		return fs
	}
	if valid && !allImplied {
		add("accepted-non-consequence", fmt.Sprintf("certificate %q accepted although a line is not a consequence of the problem", c.Lines))
	}
	if valid && hasEmpty && !models.IsEmpty() && allImplied {
		add("accepted-empty-clause-on-satisfiable", "valid certificate with the empty clause for a satisfiable problem")
	}
	if !valid && allRUP && !hasTaut {
		add("rejected-rup-derivable", fmt.Sprintf("certificate %q rejected although every line is derivable by unit propagation", c.Lines))
	}
	// the problem stays reusable: an extraction after the checks must still be right
	if len(fs) == 0 && models.IsEmpty() && len(c.F) > 0 {
		var res *explain.Problem
		var err3 error
		pn, _ := guard(func() { res, err3 = pb.UnsatSubset() })
		switch {
		case pn != "":
			add("subset-after-check/panic@"+lastPanicSite, pn)
		case err3 != nil:
			add("subset-after-check/error-on-unsatisfiable", err3.Error())
		case res == nil:
			add("subset-after-check/nil-result", "nil result without error")
		default:
			for _, f := range judgeSubset("UnsatSubset/after-check", c.F, c.N, res, false) {
				f.Sig = pre + "/" + f.Sig
				fs = append(fs, f)
			}
		}
	}
	r.Sample("certificate", 3, c)
	return fs
}

func init() { core.Register(c08{}) }
