package scen

import (
	"encoding/json"
	"fmt"

	"github.com/crillab/gophersat/solver"

	"verifmc/internal/core"
	"verifmc/internal/tt"
)

// C09 — adding constraints to a live solver equals solving from scratch.

// Op is one step of a history: Solve ("S") or AppendClause ("A") of a constraint built by
// NewClause ("cl"), NewCardClause ("card") or NewPBClause ("ge").
type Op struct {
	Op string `json:"op"`
	C  *Con   `json:"c,omitempty"`
}

type HistCase struct {
	Base Prob `json:"base"`
	Ops  []Op `json:"ops"`
	Dev  int  `json:"dev"`
}

func mkClause(c Con) *solver.Clause {
	lits := make([]solver.Lit, len(c.L))
	for i, l := range c.L {
		lits[i] = solver.IntToLit(int32(l))
	}
	switch c.T {
	case "cl":
		return solver.NewClause(lits)
	case "card":
		return solver.NewCardClause(lits, c.K)
	case "ge":
		return solver.NewPBClause(lits, append([]int{}, c.W...), c.K)
	}
	panic("bad appended constraint " + c.T)
}

func litsToInts(ls []solver.Lit) []int {
	r := make([]int, len(ls))
	for i, l := range ls {
		r[i] = int(l.Int())
	}
	return r
}

// appendAlphabet: constraints over variables 1..nv (nv includes one fresh variable).
func appendAlphabet(nv int, level int) []Con {
	var out []Con
	// clauses: every literal sequence of length 1..2 (repeats and tautologies included)
	for _, l := range litSeqs(nv, 1, 2) {
		out = append(out, Con{T: "cl", L: l})
	}
	if level >= 1 {
		// length 3 with a repeated literal or a fresh variable last
		for _, l := range litSeqs(nv, 3, 3) {
			rep := l[0] == l[1] || l[1] == l[2] || l[0] == l[2]
			fresh := l[2] == nv || l[2] == -nv
			if rep || fresh {
				out = append(out, Con{T: "cl", L: l})
			}
		}
	}
	// cardinality constraints over literal sets
	maxS := 2
	if level >= 1 {
		maxS = 3
	}
	for _, l := range litSets(nv, 2, maxS) {
		for k := 1; k <= len(l); k++ {
			if level == 0 && k == 1 {
				continue // same as a clause
			}
			out = append(out, Con{T: "card", L: l, K: k})
		}
	}
	// PB constraints, weights in {1,2}
	for _, l := range litSets(nv, 2, maxS) {
		for _, w := range weightVectors(len(l), 1, 2) {
			if level == 0 && (w[0] != 2 || absSum(w) == 2*len(w)) {
				continue
			}
			for k := 1; k <= absSum(w)+1; k++ {
				if level == 0 && k != 2 && k != absSum(w) {
					continue
				}
				out = append(out, Con{T: "ge", L: l, W: w, K: k})
			}
		}
	}
	return out
}

type c09 struct{}

func (c09) ID() string    { return "C09" }
func (c09) Level() string { return "exploration" }
func (c09) Rule() string {
	return "cases = histories over {Solve, AppendClause(c)}: base problems (empty over 0..2 variables, T2 with <=1 clause, S3 with <=2 clauses) x 1 appended constraint from the full alphabet (clauses of length 1..3 incl. repeated literals, tautologies and one fresh variable; H6: cardinality/PB constraints in which a variable occurs several times (repeated literal, literal and its negation), alone and paired with a short clause; H5: constraints introducing two variables never seen before (either order, also with a gap in the numbering) as pairs under every Solve placement and triples from a reduced alphabet; NewCardClause with every degree; NewPBClause with weights in {1,2} and every degree 1..sum+1) x Solve placements; 2 appended constraints from a reduced alphabet x all 4 Solve placements; 3 appended short clauses; a seeded catalogue of random formulas fed clause by clause to a live solver (with a cardinality and a PB constraint in the middle). Each history runs once per heuristic choice list (<=1 deviation over all Solve calls of the history). Oracle: truth table of base AND everything appended so far, after every Solve; Unsat is sticky. Non-trivial = some Solve after an append had to search (decision or conflict) or the verdict changed along the history."
}
func (c09) Assumptions() []string {
	return []string{"truth-table reference is correct", "appended constraints are built by NewClause/NewCardClause/NewPBClause with arguments in their documented domain (degree >= 1, cardinality <= length)"}
}
func (c09) Decode(raw json.RawMessage) (core.Case, error) {
	var c HistCase
	err := json.Unmarshal(raw, &c)
	return c, err
}

func histWith(base Prob, cs []Con, solveMask int, dev int) HistCase {
	h := HistCase{Base: base, Dev: dev}
	for i, c := range cs {
		if solveMask>>uint(i)&1 == 1 {
			h.Ops = append(h.Ops, Op{Op: "S"})
		}
		cc := cpCon(c)
		h.Ops = append(h.Ops, Op{Op: "A", C: &cc})
	}
	h.Ops = append(h.Ops, Op{Op: "S"})
	return h
}

func (c09) Enumerate(tier string, seed int64, yield func(string, core.Case) bool) {
	thorough := tier == "thorough"
	type base struct {
		p  Prob
		nv int // variables available to appended constraints (one fresh)
	}
	var basesSmall, basesAll []base
	for n := 0; n <= 2; n++ {
		b := base{cnfProb("slicenb", nil, n, n), n + 1}
		basesSmall = append(basesSmall, b)
		basesAll = append(basesAll, b)
	}
	famT2(1, -1, func(f [][]int, n int) bool {
		b := base{cnfProb("slicenb", f, n, n), n + 1}
		basesSmall = append(basesSmall, b)
		basesAll = append(basesAll, b)
		return true
	})
	famS3(2, 2, func(f [][]int, n int) bool {
		if len(f) == 0 {
			return true
		}
		b := base{cnfProb("slice", f, n, 0), n + 1}
		if len(f) == 1 {
			basesSmall = append(basesSmall, b)
		}
		basesAll = append(basesAll, b)
		return true
	})
	// H1: one append from the full alphabet
	for _, b := range basesAll {
		lvl := 1
		if len(b.p.Cs) >= 2 && !thorough {
			lvl = 0
		}
		for _, c := range appendAlphabet(b.nv, lvl) {
			for mask := 0; mask < 2; mask++ {
				if !yield("H1", histWith(b.p, []Con{c}, mask, 1)) {
					return
				}
			}
		}
	}
	// H2: two appends from the reduced alphabet, every Solve placement
	for _, b := range basesSmall {
		if b.nv > 3 && !thorough {
			continue
		}
		al := appendAlphabet(b.nv, 0)
		for _, c1 := range al {
			for _, c2 := range al {
				for mask := 0; mask < 4; mask++ {
					dev := 0
					if mask == 3 && b.nv <= 2 {
						dev = 1
					}
					if !yield("H2", histWith(b.p, []Con{c1, c2}, mask, dev)) {
						return
					}
				}
			}
		}
	}
	// H4: a random formula fed clause by clause to a live solver: base = its first half, the rest is
	// appended one clause at a time with a Solve after every second append (seeded catalogue)
	nr := 150
	if thorough {
		nr = 1500
	}
	g := &lcg{s: uint64(seed)*69621 + 5}
	for sd := 0; sd < nr; sd++ {
		n := 5 + int(g.next()%4)
		m := 2*n + int(g.next()%uint64(2*n))
		f := rand3cnf(g.next(), n, m)
		half := len(f) / 2
		h := HistCase{Base: cnfProb("slicenb", f[:half], n, n), Dev: 1}
		for i, c := range f[half:] {
			cc := Con{T: "cl", L: append([]int{}, c...)}
			h.Ops = append(h.Ops, Op{Op: "A", C: &cc})
			if i%2 == 1 {
				h.Ops = append(h.Ops, Op{Op: "S"})
			}
		}
		h.Ops = append(h.Ops, Op{Op: "S"})
		if !yield("H4", h) {
			return
		}
		// the same history with a cardinality and a PB constraint in the middle
		h2 := HistCase{Base: h.Base, Dev: 0}
		for i, op := range h.Ops {
			h2.Ops = append(h2.Ops, op)
			if i == len(h.Ops)/2 {
				k1 := Con{T: "card", L: []int{1, -2, 3}, K: 2}
				k2 := Con{T: "ge", L: []int{-1, 2, 4}, W: []int{2, 1, 1}, K: 2}
				h2.Ops = append(h2.Ops, Op{Op: "A", C: &k1}, Op{Op: "S"}, Op{Op: "A", C: &k2})
			}
		}
		if !yield("H4+pb", h2) {
			return
		}
	}
	// H6: cardinality and PB constraints in which a variable occurs several times (the same literal repeated, or a
	// literal and its negation): every literal sequence of length 2..3 with a repeated variable, every degree,
	// weights in {1,2}; alone under both Solve placements, and paired with every short clause in either order
	{
		var rep []Con
		for _, nv := range []int{2, 3} {
			for _, l := range litSeqs(nv, 2, 3) {
				seen := map[int]bool{}
				dup := false
				for _, x := range l {
					if seen[iabs(x)] {
						dup = true
					}
					seen[iabs(x)] = true
				}
				if !dup || (nv == 3 && !seen[3]) { // sequences over 2 variables are produced by nv == 2
					continue
				}
				for k := 1; k <= len(l); k++ {
					rep = append(rep, Con{T: "card", L: l, K: k})
				}
				for _, w := range weightVectors(len(l), 1, 2) {
					for k := 1; k <= absSum(w)+1; k++ {
						rep = append(rep, Con{T: "ge", L: l, W: w, K: k})
					}
				}
			}
		}
		short := []Con{}
		for _, l := range litSeqs(3, 1, 2) {
			short = append(short, Con{T: "cl", L: l})
		}
		for bi, b := range basesSmall {
			for ri, c := range rep {
				for mask := 0; mask < 2; mask++ {
					if !yield("H6", histWith(b.p, []Con{c}, mask, 1)) {
						return
					}
				}
				if bi >= 6 || (ri%8 != 0 && !thorough) {
					continue
				}
				for _, d := range short {
					if !yield("H6/2", histWith(b.p, []Con{c, d}, 1, 0)) || !yield("H6/2", histWith(b.p, []Con{d, c}, 2, 0)) {
						return
					}
				}
			}
		}
	}
	// H5: constraints that introduce SEVERAL variables never seen before (two fresh variables, in either order, also
	// with a gap in the numbering), appended to a solver that knows one variable: every ordered clause of length 1..3
	// over {x1, f1, f2} without repeated variable, plus cardinality/PB constraints over the fresh variables; every pair
	// of appends under every Solve placement, every triple from a reduced alphabet with a Solve after each append and
	// with one Solve before the last append.
	{
		type vs struct {
			b       Prob
			x, f, g int
		}
		var sets []vs
		for _, f := range [][][]int{nil, {{1}}, {{-1}}} {
			sets = append(sets, vs{cnfProb("slicenb", f, 1, 1), 1, 2, 3})
		}
		sets = append(sets, vs{cnfProb("slicenb", [][]int{{1}}, 1, 1), 1, 3, 4}, vs{cnfProb("slicenb", [][]int{{-1}}, 1, 1), 1, 4, 3})
		for _, v := range sets {
			vars := []int{v.x, v.f, v.g}
			var full, reduced []Con
			var rec func(cur []int, used int)
			rec = func(cur []int, used int) {
				if len(cur) >= 1 {
					c := Con{T: "cl", L: append([]int{}, cur...)}
					full = append(full, c)
					asc := true
					for i := 1; i < len(cur); i++ {
						if iabs(cur[i]) < iabs(cur[i-1]) {
							asc = false
						}
					}
					if asc || (len(cur) == 2 && iabs(cur[0]) == v.g && iabs(cur[1]) == v.f) {
						reduced = append(reduced, c)
					}
				}
				if len(cur) == 3 {
					return
				}
				for i, x := range vars {
					if used>>uint(i)&1 == 1 {
						continue
					}
					rec(append(cur, x), used|1<<uint(i))
					rec(append(cur, -x), used|1<<uint(i))
				}
			}
			rec(nil, 0)
			extra := []Con{
				{T: "card", L: []int{v.f, v.g}, K: 1}, {T: "card", L: []int{v.g, v.f}, K: 2}, {T: "card", L: []int{-v.f, -v.g}, K: 1},
				{T: "card", L: []int{v.x, v.f, v.g}, K: 2}, {T: "card", L: []int{v.x, v.g, v.f}, K: 1}, {T: "card", L: []int{-v.x, v.f, v.g}, K: 2},
				{T: "ge", L: []int{v.f, v.g}, W: []int{2, 1}, K: 2}, {T: "ge", L: []int{v.x, v.g, v.f}, W: []int{2, 1, 1}, K: 2}, {T: "ge", L: []int{v.x, v.f, v.g}, W: []int{1, 1, 1}, K: 1},
			}
			full = append(full, extra...)
			reduced = append(reduced, extra[:4]...)
			for _, c1 := range full {
				for _, c2 := range full {
					for mask := 0; mask < 4; mask++ {
						if !yield("H5/2", histWith(v.b, []Con{c1, c2}, mask, 0)) {
							return
						}
					}
				}
			}
			for _, c1 := range reduced {
				for _, c2 := range reduced {
					for _, c3 := range reduced {
						cs := []Con{c1, c2, c3}
						if !yield("H5/3", histWith(v.b, cs, 7, 0)) || !yield("H5/3", histWith(v.b, cs, 4, 0)) || !yield("H5/3", histWith(v.b, cs, 0, 0)) {
							return
						}
					}
				}
			}
		}
	}
	// H3: three appended short clauses over 2 variables (+ unit clauses on a fresh third), solve after each
	cl := litSeqs(2, 1, 2)
	cl = append(cl, []int{3}, []int{-3}, []int{1, 3}, []int{-2, -3})
	for _, b := range basesSmall[:3] {
		for _, a := range cl {
			for _, bb := range cl {
				for _, c := range cl {
					cs := []Con{{T: "cl", L: a}, {T: "cl", L: bb}, {T: "cl", L: c}}
					if !yield("H3", histWith(b.p, cs, 7, 0)) {
						return
					}
					if thorough {
						if !yield("H3", histWith(b.p, cs, 5, 0)) || !yield("H3", histWith(b.p, cs, 2, 0)) {
							return
						}
					}
				}
			}
		}
	}
}

func (c09) Exec(cc core.Case, r *core.Rec) []core.Failure {
	c := cc.(HistCase)
	// reference after each step
	type stepRef struct {
		models tt.Set
	}
	ref := c.Base.Ref()
	nv := c.Base.Declared()
	var refs []stepRef
	for _, op := range c.Ops {
		if op.Op == "A" {
			k := op.C.ref()
			ref = append(ref, k...)
			if mv := tt.MaxVar(k); mv > nv {
				nv = mv
			}
		}
		refs = append(refs, stepRef{tt.Models(nv, ref)})
	}
	return exploreProb(r, c.Dev, c, "history", func(choices []int) []core.Failure {
		var fs []core.Failure
		add := func(step int, kind, detail string) {
			fs = append(fs, core.Failure{Sig: kind, Detail: fmt.Sprintf("step %d (%s): %s", step, c.Ops[step].Op, detail)})
		}
		var pb *solver.Problem
		var err error
		if pn, v := core.Safely(func() { pb, err = c.Base.Build() }); pn || err != nil {
			return []core.Failure{{Sig: "base-build-failed", Detail: fmt.Sprint(v, err)}}
		}
		var s *solver.Solver
		if pn, _ := guard(func() { s = solver.New(pb) }); pn != "" {
			return []core.Failure{{Sig: "new-panic", Detail: pn}}
		}
		searched, changed := false, false
		lastVerdict := solver.Indet
		unsatSeen := false
		for i, op := range c.Ops {
			if op.Op == "A" {
				kind := "AppendClause(" + op.C.T + ")"
				pn, ab := guard(func() { s.AppendClause(mkClause(*op.C)) })
				if pn != "" {
					add(i, kind+"/panic", pn)
					return fs
				}
				if ab {
					add(i, kind+"/nontermination", "step budget exceeded")
					return fs
				}
				continue
			}
			var st solver.Status
			var model []bool
			before := s.Stats
			pn, ab := guard(func() {
				st = s.Solve()
				if st == solver.Sat {
					model = s.Model()
				}
			})
			if pn != "" {
				add(i, "Solve/panic", pn)
				return fs
			}
			if ab {
				add(i, "Solve/nontermination", "step budget exceeded")
				return fs
			}
			if i > 0 && (s.Stats.NbDecisions > before.NbDecisions || s.Stats.NbConflicts > before.NbConflicts) {
				searched = true
			}
			if lastVerdict != solver.Indet && lastVerdict != st {
				changed = true
			}
			lastVerdict = st
			models := refs[i].models
			sat := !models.IsEmpty()
			switch st {
			case solver.Sat:
				if unsatSeen {
					add(i, "Solve/sat-after-unsat", "an earlier Solve of this history answered Unsat")
				}
				if !sat {
					add(i, "Solve/sat-on-unsatisfiable", fmt.Sprintf("model %v, the conjunction has no model", model))
				} else if len(model) < models.N {
					add(i, "Solve/model-too-short", fmt.Sprintf("model has %d values, the conjunction mentions %d variables", len(model), models.N))
				} else if !models.Has(tt.FromBools(model[:models.N])) {
					add(i, "Solve/invalid-model", fmt.Sprintf("model %v violates the conjunction of the base problem and the appended constraints", model))
				}
			case solver.Unsat:
				unsatSeen = true
				if sat {
					add(i, "Solve/unsat-on-satisfiable", "the conjunction has a model")
				}
			default:
				add(i, "Solve/indet", fmt.Sprintf("status %d", st))
			}
			if len(fs) > 0 {
				return fs
			}
		}
		countStats(r, s.Stats)
		if searched || changed {
			r.NonTrivial()
		}
		r.Outcome(fmt.Sprintf("last=%v/changed=%v/searched=%v/confl=%d", lastVerdict, changed, searched, min3(s.Stats.NbConflicts)))
		return fs
	})
}

func init() { core.Register(c09{}) }

func iabs(x int) int {
	if x < 0 {
		return -x
	}
	return x
}
