package scen

import (
	"encoding/json"
	"fmt"

	"github.com/crillab/gophersat/solver"

	"verifmc/internal/core"
	"verifmc/internal/tt"
)

// C10 — solving under assumptions decides formula AND current assumptions.

type AssumeCase struct {
	Base   Prob    `json:"base"`
	Rounds [][]int `json:"rounds"` // each round: the assumed literals
	Dev    int     `json:"dev"`
}

type c10 struct{}

func (c10) ID() string    { return "C10" }
func (c10) Level() string { return "exploration" }
func (c10) Rule() string {
	return "cases = base CNF problems (T2 with <=2 clauses, S3 with <=3 clauses, D3-style single clauses with units, a few conflict-rich seeds; with and without unit clauses / parse-time facts, and parse-time Unsat) x every sequence of <=3 rounds (quick; 1-2 rounds on larger bases), each round = Assume(list) with every list of <=2 literals (empty, repeated literal, contradictory pair) followed by Solve unless Assume already answered Unsat; x heuristic choice list (<=1 deviation). Oracle per round: truth table of base AND this round's assumptions only. Non-trivial = at least one round had a non-empty assumption list and the verdicts of the rounds are not all equal, or some round met a conflict."
}
func (c10) Assumptions() []string {
	return []string{"truth-table reference is correct", "assumed literals mention declared variables only"}
}
func (c10) Decode(raw json.RawMessage) (core.Case, error) {
	var c AssumeCase
	err := json.Unmarshal(raw, &c)
	return c, err
}

func (c10) Enumerate(tier string, seed int64, yield func(string, core.Case) bool) {
	thorough := tier == "thorough"
	lists := func(n int) [][]int { return litSeqs(n, 0, 2) }
	emitRounds := func(fam string, base Prob, n, maxRounds, dev int) bool {
		ls := lists(n)
		for k := 1; k <= maxRounds; k++ {
			ok := sequences(len(ls), k, func(idx []int) bool {
				return yield(fam, AssumeCase{Base: base, Rounds: pick(ls, idx), Dev: dev})
			})
			if !ok {
				return false
			}
		}
		return true
	}
	r3 := 3
	if !famT2(2, -1, func(f [][]int, n int) bool {
		if len(f) == 2 && !thorough {
			return emitRounds("T2", cnfProb("slicenb", f, n, n), n, 2, 1)
		}
		return emitRounds("T2", cnfProb("slicenb", f, n, n), n, r3, 1)
	}) {
		return
	}
	if !famS3(2, 3, func(f [][]int, n int) bool {
		switch {
		case len(f) <= 1:
			return emitRounds("S3", cnfProb("slicenb", f, n, n), n, 2, 1)
		case len(f) == 2:
			return emitRounds("S3", cnfProb("slicenb", f, n, n), n, 2, 0)
		default:
			if thorough {
				return emitRounds("S3", cnfProb("slicenb", f, n, n), n, 2, 0)
			}
			return emitRounds("S3", cnfProb("slicenb", f, n, n), n, 1, 1)
		}
	}) {
		return
	}
	// unit-rich bases: S3 binary/ternary clause pairs plus one or two units
	al := litSets(3, 2, 3)
	un := litSets(3, 1, 1)
	for i, a := range al {
		for _, b := range al[i:] {
			for _, u := range un {
				f := [][]int{a, b, u}
				if !emitRounds("S3units", cnfProb("slicenb", f, 3, 3), 3, 2, 0) {
					return
				}
			}
		}
	}
	for _, s := range seedsM(seed, tier) {
		n := maxVarCNF(s.F)
		if n > 12 {
			continue
		}
		// single rounds with every list of <=2 literals, and pairs of rounds with one literal each
		base := cnfProb("slicenb", s.F, n, n)
		for _, l := range lists(n) {
			if !yield("M/"+s.Name, AssumeCase{Base: base, Rounds: [][]int{l}, Dev: 1}) {
				return
			}
		}
		one := litSeqs(n, 1, 1)
		for _, a := range one {
			for _, b := range one {
				if !yield("M2/"+s.Name, AssumeCase{Base: base, Rounds: [][]int{a, b}, Dev: 0}) {
					return
				}
			}
		}
	}
}

func (c10) Exec(cc core.Case, r *core.Rec) []core.Failure {
	c := cc.(AssumeCase)
	n := c.Base.Declared()
	baseRef := c.Base.Ref()
	refs := make([]tt.Set, len(c.Rounds))
	for i, as := range c.Rounds {
		f := append([]tt.Constr{}, baseRef...)
		for _, l := range as {
			f = append(f, tt.Clause(l))
		}
		refs[i] = tt.Models(n, f)
	}
	return exploreProb(r, c.Dev, c, "assumption-rounds", func(choices []int) []core.Failure {
		var fs []core.Failure
		add := func(round int, kind, detail string) {
			fs = append(fs, core.Failure{Sig: kind, Detail: fmt.Sprintf("round %d assume %v: %s", round, c.Rounds[round], detail)})
		}
		var pb *solver.Problem
		var err error
		if pn, v := core.Safely(func() { pb, err = c.Base.Build() }); pn || err != nil {
			return []core.Failure{{Sig: "base-build-failed", Detail: fmt.Sprint(v, err)}}
		}
		var s *solver.Solver
		if pn, _ := guard(func() { s = solver.New(pb) }); pn != "" {
			return []core.Failure{{Sig: "new-panic", Detail: pn}}
		}
		verdicts := ""
		for i, as := range c.Rounds {
			lits := make([]solver.Lit, len(as))
			for k, l := range as {
				lits[k] = solver.IntToLit(int32(l))
			}
			var st solver.Status
			var model []bool
			pn, ab := guard(func() {
				st = s.Assume(lits)
				if st != solver.Unsat {
					st = s.Solve()
				}
				if st == solver.Sat {
					model = s.Model()
				}
			})
			if pn != "" {
				add(i, "panic", pn)
				return fs
			}
			if ab {
				add(i, "nontermination", "step budget exceeded")
				return fs
			}
			models := refs[i]
			sat := !models.IsEmpty()
			switch st {
			case solver.Sat:
				verdicts += "S"
				if !sat {
					add(i, "sat-on-unsatisfiable", fmt.Sprintf("model %v; the problem with these assumptions has no model", model))
				} else if len(model) != n {
					add(i, "model-length", fmt.Sprintf("model has %d values, %d variables declared", len(model), n))
				} else if !models.Has(tt.FromBools(model)) {
					add(i, "invalid-model", fmt.Sprintf("model %v violates the problem (units included) or an assumption", model))
				}
			case solver.Unsat:
				verdicts += "U"
				if sat {
					add(i, "unsat-on-satisfiable", "the problem with these assumptions has a model")
				}
			default:
				add(i, "indet", fmt.Sprintf("status %d", st))
			}
			if len(fs) > 0 {
				return fs
			}
		}
		countStats(r, s.Stats)
		mixed := false
		for i := 1; i < len(verdicts); i++ {
			if verdicts[i] != verdicts[0] {
				mixed = true
			}
		}
		if mixed || s.Stats.NbConflicts > 0 {
			r.NonTrivial()
		}
		r.Outcome(verdicts + fmt.Sprintf("/confl=%d", min3(s.Stats.NbConflicts)))
		return fs
	})
}

func init() { core.Register(c10{}) }
