package scen

import (
	"encoding/json"
	"fmt"

	"github.com/crillab/gophersat/solver"

	"verifmc/internal/choice"
	"verifmc/internal/core"
	"verifmc/internal/tt"
)

// C10 — solving under assumptions decides formula AND current assumptions.

type AssumeCase struct {
	Base   Prob    `json:"base"`
	Rounds [][]int `json:"rounds"` // each round: the assumed literals
	Dev    int     `json:"dev"`
	CP     bool    `json:"cp,omitempty"` // solver option CuttingPlanes on (signatures get the prefix cp/)
}

type c10 struct{}

func (c10) ID() string    { return "C10" }
func (c10) Level() string { return "exploration" }
func (c10) Rule() string {
	return "cases = base CNF problems (T2 with <=2 clauses, S3 with <=3 clauses, D3-style single clauses with units, a few conflict-rich seeds, and the 'chain' family (every 3..5-clause subset of a 14-clause menu over 5 variables in which assumptions propagate through implication chains before a conflict); with and without unit clauses / parse-time facts, and parse-time Unsat) x every sequence of <=3 rounds (quick; 1-2 rounds on larger bases), each round = Assume(list) with every list of <=2 literals (empty, repeated literal, contradictory pair) followed by Solve unless Assume already answered Unsat; x heuristic choice list (<=1 deviation). Family CP: the same oracle with the solver option CuttingPlanes on, on three bases over 4..5 variables with every sequence of 2 rounds of <=1 assumed literal (failures reported under cp/). Oracle per round: truth table of base AND this round's assumptions only. Non-trivial = at least one round had a non-empty assumption list and the verdicts of the rounds are not all equal, or some round met a conflict."
}
func (c10) Assumptions() []string {
	return []string{"truth-table reference is correct", "assumed literals mention declared variables only"}
}
func (c10) Decode(raw json.RawMessage) (core.Case, error) {
	var c AssumeCase
	err := json.Unmarshal(raw, &c)
	return c, err
}

func (c10) Enumerate(tier string, seed int64, yield func(string, core.Case) bool) {
	thorough := tier == "thorough"
	lists := func(n int) [][]int { return litSeqs(n, 0, 2) }
	emitRounds := func(fam string, base Prob, n, maxRounds, dev int) bool {
		ls := lists(n)
		for k := 1; k <= maxRounds; k++ {
			ok := sequences(len(ls), k, func(idx []int) bool {
				return yield(fam, AssumeCase{Base: base, Rounds: pick(ls, idx), Dev: dev})
			})
			if !ok {
				return false
			}
		}
		return true
	}
	r3 := 3
	if !famT2(2, -1, func(f [][]int, n int) bool {
		if len(f) == 2 && !thorough {
			return emitRounds("T2", cnfProb("slicenb", f, n, n), n, 2, 1)
		}
		return emitRounds("T2", cnfProb("slicenb", f, n, n), n, r3, 1)
	}) {
		return
	}
	if !famS3(2, 3, func(f [][]int, n int) bool {
		switch {
		case len(f) <= 1:
			return emitRounds("S3", cnfProb("slicenb", f, n, n), n, 2, 1)
		case len(f) == 2:
			return emitRounds("S3", cnfProb("slicenb", f, n, n), n, 2, 0)
		default:
			if thorough {
				return emitRounds("S3", cnfProb("slicenb", f, n, n), n, 2, 0)
			}
			return emitRounds("S3", cnfProb("slicenb", f, n, n), n, 1, 1)
		}
	}) {
		return
	}
	// unit-rich bases: S3 binary/ternary clause pairs plus one or two units
	al := litSets(3, 2, 3)
	un := litSets(3, 1, 1)
	for i, a := range al {
		for _, b := range al[i:] {
			for _, u := range un {
				f := [][]int{a, b, u}
				if !emitRounds("S3units", cnfProb("slicenb", f, 3, 3), 3, 2, 0) {
					return
				}
			}
		}
	}
	// "chain" family: assumptions whose consequences are propagated at the top level through a
	// chain of implications, followed by a conflict among the remaining variables; every subset of
	// 3..5 clauses of a 14-clause menu over 5 variables x (first round on the chain variables,
	// second round on any variable or none)
	{
		menu := [][]int{{-1, 2}, {-2, 3}, {-1, 3}, {1, 2}, {-3, -4, 5}, {-3, -4, -5}, {-2, 4, 5}, {4, -5}, {3, 4}, {-3, 4, -5}, {2, -4, 5}, {-1, -5, 4}, {1, -2, -4}, {-4, 5}}
		first := litSeqs(3, 1, 1)
		second := append([][]int{{}}, litSeqs(5, 1, 1)...)
		for k := 3; k <= 5; k++ {
			ok := subsets(len(menu), k, func(idx []int) bool {
				base := cnfProb("slicenb", pick(menu, idx), 5, 5)
				dev := 0
				if k == 3 {
					dev = 1
				}
				for _, a := range first {
					for _, b := range second {
						if !yield("chain", AssumeCase{Base: base, Rounds: [][]int{a, b}, Dev: dev}) {
							return false
						}
					}
				}
				return true
			})
			if !ok {
				return
			}
		}
	}
	// CP: the solver option CuttingPlanes combined with assumptions, on three small bases (a CNF, a clause/PB mix, a
	// clause/cardinality mix over 4..5 variables): every sequence of 2 rounds with lists of <=1 literal
	{
		cpBases := []Prob{
			cnfProb("slicenb", [][]int{{2, -3}, {3, -1}, {3, 1}, {-1, -2}, {-4, 1, -3}}, 4, 4),
			{Front: "pb", N: 5, Cs: []Con{{T: "cl", L: []int{1, 2}}, {T: "ge", L: []int{4, -5, -2, 3, 1}, W: []int{5, 1, 1, 1, 1}, K: 7}}},
			{Front: "pb", N: 5, Cs: []Con{{T: "atl", L: []int{-3, -4, -5}, K: 2}, {T: "cl", L: []int{4, 1}}, {T: "cl", L: []int{1, 2, 3}}}},
		}
		for _, b := range cpBases {
			ls := litSeqs(b.N, 0, 1)
			for _, a := range ls {
				for _, bb := range ls {
					if !yield("CP", AssumeCase{Base: b, Rounds: [][]int{a, bb}, Dev: 0, CP: true}) {
						return
					}
				}
			}
		}
	}
	for _, s := range seedsM(seed, tier) {
		n := maxVarCNF(s.F)
		if n > 12 {
			continue
		}
		// single rounds with every list of <=2 literals, and pairs of rounds with one literal each
		base := cnfProb("slicenb", s.F, n, n)
		for _, l := range lists(n) {
			if !yield("M/"+s.Name, AssumeCase{Base: base, Rounds: [][]int{l}, Dev: 1}) {
				return
			}
		}
		one := litSeqs(n, 1, 1)
		for _, a := range one {
			for _, b := range one {
				if !yield("M2/"+s.Name, AssumeCase{Base: base, Rounds: [][]int{a, b}, Dev: 0}) {
					return
				}
			}
		}
	}
}

// roundsRun executes Assume+Solve rounds on a fresh solver under the currently installed
// controller and judges every round against the truth table of base AND that round's assumptions.
type roundsRun struct {
	fails    []core.Failure
	verdicts string
	stats    solver.Stats
	lines    []string // certificate lines (when certified)
}

// runRoundsCP: cutting planes for the next runRounds call (set and cleared by Exec)
var runRoundsCP bool

func runRounds(base Prob, rounds [][]int, certified bool) (rr roundsRun) {
	n := base.Declared()
	baseRef := base.Ref()
	add := func(round int, kind, detail string) {
		rr.fails = append(rr.fails, core.Failure{Sig: kind, Detail: fmt.Sprintf("round %d of %v, assume %v: %s", round, rounds, rounds[round], detail)})
	}
	var pb *solver.Problem
	var err error
	if pn, v := core.Safely(func() { pb, err = base.Build() }); pn || err != nil {
		rr.fails = []core.Failure{{Sig: "base-build-failed", Detail: fmt.Sprint(v, err)}}
		return
	}
	var s *solver.Solver
	if pn, _ := guard(func() { s = solver.New(pb) }); pn != "" {
		rr.fails = []core.Failure{{Sig: "new-panic", Detail: pn}}
		return
	}
	s.CuttingPlanes = runRoundsCP
	var ch chan string
	var drained chan struct{}
	if certified {
		ch = make(chan string, 256)
		drained = make(chan struct{})
		go func() {
			for l := range ch {
				rr.lines = append(rr.lines, l)
			}
			close(drained)
		}()
		s.Certified = true
		s.CertChan = ch
		defer func() {
			close(ch)
			<-drained
		}()
	}
	for i, as := range rounds {
		lits := make([]solver.Lit, len(as))
		for k, l := range as {
			lits[k] = solver.IntToLit(int32(l))
		}
		var st solver.Status
		var model []bool
		pn, ab := guard(func() {
			st = s.Assume(lits)
			if st != solver.Unsat {
				st = s.Solve()
			}
			if st == solver.Sat {
				model = s.Model()
			}
		})
		if pn != "" {
			add(i, "panic", pn)
			return
		}
		if ab {
			add(i, "nontermination", "step budget exceeded")
			return
		}
		f := append([]tt.Constr{}, baseRef...)
		for _, l := range as {
			f = append(f, tt.Clause(l))
		}
		models := tt.Models(n, f)
		sat := !models.IsEmpty()
		switch st {
		case solver.Sat:
			rr.verdicts += "S"
			if !sat {
				add(i, "sat-on-unsatisfiable", fmt.Sprintf("model %v; the problem with these assumptions has no model", model))
			} else if len(model) != n {
				add(i, "model-length", fmt.Sprintf("model has %d values, %d variables declared", len(model), n))
			} else if !models.Has(tt.FromBools(model)) {
				add(i, "invalid-model", fmt.Sprintf("model %v violates the problem (units included) or an assumption", model))
			}
		case solver.Unsat:
			rr.verdicts += "U"
			if sat {
				add(i, "unsat-on-satisfiable", "the problem with these assumptions has a model")
			}
		default:
			add(i, "indet", fmt.Sprintf("status %d", st))
		}
		if len(rr.fails) > 0 {
			return
		}
	}
	rr.stats = s.Stats
	return
}

func (c10) Exec(cc core.Case, r *core.Rec) []core.Failure {
	c := cc.(AssumeCase)
	n := c.Base.Declared()
	baseModels := tt.Models(n, c.Base.Ref())
	return exploreProb(r, c.Dev, c, "assumption-rounds", func(choices []int) []core.Failure {
		if c.CP {
			// the option CuttingPlanes combined with assumptions: judged by the same oracle, reported under cp/
			runRoundsCP = true
			rr := runRounds(c.Base, c.Rounds, false)
			runRoundsCP = false
			for i := range rr.fails {
				rr.fails[i].Sig = "cp/" + rr.fails[i].Sig
			}
			r.Outcome("cp/" + rr.verdicts)
			return rr.fails
		}
		rr := runRounds(c.Base, c.Rounds, false)
		if len(rr.fails) > 0 {
			return rr.fails
		}
		countStats(r, rr.stats)
		mixed := false
		for i := 1; i < len(rr.verdicts); i++ {
			if rr.verdicts[i] != rr.verdicts[0] {
				mixed = true
			}
		}
		if mixed || rr.stats.NbConflicts > 0 {
			r.NonTrivial()
		}
		r.Outcome(rr.verdicts + fmt.Sprintf("/confl=%d", min3(rr.stats.NbConflicts)))
		if rr.stats.NbLearned+rr.stats.NbUnitLearned == 0 {
			return nil
		}
		// Leads: something was learned under assumptions. Anything the solver keeps must stay
		// harmless in later rounds; the certificate channel shows what was learned. For every
		// emitted clause C that the base formula does not imply, the history is extended by one
		// round assuming the negation of C (satisfiable together with the base by construction) and
		// that round is judged like any other. Only the property's own statement decides.
		opts := currentOpts
		var twin roundsRun
		choice.Explore(opts, append([]int{}, choices...), func(_ *choice.Ctl, _ []int) bool {
			twin = runRounds(c.Base, c.Rounds, true)
			return true
		})
		r.Execution()
		seen := map[string]bool{}
		followups := 0
		for _, ln := range twin.lines {
			cl, err := parseCertLine(ln)
			if err != nil || len(cl) == 0 || seen[ln] {
				continue
			}
			seen[ln] = true
			if tt.Implied(baseModels, tt.Clause(cl...)) {
				continue
			}
			if followups >= 6 {
				break
			}
			followups++
			ext := append(append([][]int{}, c.Rounds...), negAll(cl))
			var fr roundsRun
			choice.Explore(opts, append([]int{}, choices...), func(_ *choice.Ctl, _ []int) bool {
				fr = runRounds(c.Base, ext, false)
				return true
			})
			r.Execution()
			r.Count("followup_rounds_from_learned_clause_leads", 1)
			if len(fr.fails) > 0 {
				return fr.fails
			}
		}
		return nil
	})
}

func init() { core.Register(c10{}) }
