package scen

import (
	"bytes"
	"encoding/json"
	"fmt"
	"strconv"
	"strings"

	"github.com/crillab/gophersat/bf"

	"verifmc/internal/core"
	"verifmc/internal/tt"
)

// C11 — solving a boolean formula agrees with its truth table.
// C12 — the DIMACS export of a formula has exactly the formula's models.

type BFCase struct {
	F *BF `json:"f"`
}

var uniqNames = []string{"a", "b", "c", "d", "e", "f", "g"}

// bfLevel1 builds the set of depth<=1 trees over the given leaves.
func bfLevel1(leaves []*BF, maxKids int) []*BF {
	out := append([]*BF{}, leaves...)
	for _, l := range leaves {
		out = append(out, bfN("not", l))
	}
	for _, op := range []string{"and", "or"} {
		for k := 0; k <= maxKids; k++ {
			sequences(len(leaves), k, func(idx []int) bool {
				kids := make([]*BF, k)
				for i, x := range idx {
					kids[i] = leaves[x]
				}
				out = append(out, bfN(op, kids...))
				return true
			})
		}
	}
	for _, op := range []string{"implies", "eq", "xor"} {
		for _, a := range leaves {
			for _, b := range leaves {
				out = append(out, bfN(op, a, b))
			}
		}
	}
	return out
}

// enumBF yields the formula trees of the tier in canonical order.
func enumBF(tier string, yield func(fam string, f *BF) bool) {
	thorough := tier == "thorough"
	var uniq []*BF
	for k := 0; k <= 6; k++ {
		uniq = append(uniq, bfUnique(uniqNames[:k]...))
	}
	allLeaves := []*BF{bfVar("a"), bfVar("b"), bfVar("c"), bfTrue, bfFalse}
	allLeaves = append(allLeaves, uniq...)
	// depth <= 1 over all leaves, And/Or with 0..3 children
	full1 := bfLevel1(allLeaves, 3)
	for _, f := range full1 {
		if !yield("depth1", f) {
			return
		}
	}
	for _, f := range full1 {
		if !yield("not-depth1", bfN("not", f)) || !yield("notnot-depth1", bfN("not", bfN("not", f))) {
			return
		}
	}
	// depth 2 over a reduced leaf set
	ql := []*BF{bfVar("a"), bfVar("b"), bfTrue, bfFalse, uniq[1], uniq[4], uniq[5]}
	if thorough {
		ql = []*BF{bfVar("a"), bfVar("b"), bfVar("c"), bfTrue, bfFalse, uniq[0], uniq[2], uniq[4], uniq[5], uniq[6]}
	}
	e1 := bfLevel1(ql, 2)
	for _, op := range []string{"and", "or", "implies", "eq", "xor"} {
		for _, a := range e1 {
			for _, b := range e1 {
				f := bfN(op, a, b)
				if !yield("depth2/"+op, f) {
					return
				}
				if (thorough || op == "and" || op == "or") && !yield("not-depth2/"+op, bfN("not", f)) {
					return
				}
			}
		}
	}
	// ternary And/Or of depth-1 trees over the smallest leaf set
	sl := []*BF{bfVar("a"), bfVar("b"), bfFalse, bfTrue, uniq[5]}
	s1 := bfLevel1(sl, 1)
	for _, op := range []string{"and", "or"} {
		for _, a := range s1 {
			for _, b := range s1 {
				for _, c := range s1 {
					if !thorough && (a.Op == "var" || b.Op == "var") {
						continue
					}
					if !yield("depth2-3ary/"+op, bfN(op, a, b, c)) {
						return
					}
				}
			}
		}
	}
	// two exactly-one groups over the same names in different orders (auxiliary variables of the
	// two groups must not interfere), with one more literal
	{
		base := uniqNames[:5]
		var extra []*BF
		extra = append(extra, bfTrue)
		for _, n := range base {
			extra = append(extra, bfVar(n), bfN("not", bfVar(n)))
		}
		ok := permutations(5, func(p []int) bool {
			names := make([]string, 5)
			for i, k := range p {
				names[i] = base[k]
			}
			g1, g2 := bfUnique(base...), bfUnique(names...)
			for _, x := range extra {
				if !yield("two-groups", bfN("and", x, g1, g2)) || !yield("two-groups", bfN("or", bfN("and", g1, x), g2)) {
					return false
				}
			}
			return true
		})
		if !ok {
			return
		}
		// groups of 6 and 7 names sharing their first and last member
		for _, k := range []int{6, 7} {
			b := uniqNames[:k]
			for i := 1; i+1 < k-1; i++ {
				sw := append([]string{}, b...)
				sw[i], sw[i+1] = sw[i+1], sw[i]
				for _, x := range extra {
					if !yield("two-groups", bfN("and", x, bfUnique(b...), bfUnique(sw...))) {
						return
					}
				}
			}
		}
	}
	// chains: a conjunction or disjunction of 2..5 literals at the bottom of 1..4 nested connectives,
	// each with one fresh variable (or a negation): deep and/or alternation, wide cubes and clauses under
	// several levels of auxiliary variables
	{
		kinds := []string{"or-l", "and-l", "not", "eq-l", "implies-r", "or-r", "and-r", "implies-l", "xor-l"}
		wrap := func(kind string, v, g *BF) *BF {
			switch kind {
			case "or-l":
				return bfN("or", v, g)
			case "or-r":
				return bfN("or", g, v)
			case "and-l":
				return bfN("and", v, g)
			case "and-r":
				return bfN("and", g, v)
			case "not":
				return bfN("not", g)
			case "eq-l":
				return bfN("eq", v, g)
			case "implies-l":
				return bfN("implies", v, g)
			case "implies-r":
				return bfN("implies", g, v)
			}
			return bfN("xor", v, g)
		}
		var bottoms []*BF
		maxW := 5
		if thorough {
			maxW = 6
		}
		for _, op := range []string{"and", "or"} {
			for w := 2; w <= maxW; w++ {
				for pat := 0; pat < 3; pat++ {
					var kids []*BF
					for i := 0; i < w; i++ {
						l := bfVar(uniqNames[i])
						if pat == 1 || (pat == 2 && i%2 == 1) {
							l = bfN("not", l)
						}
						kids = append(kids, l)
					}
					bottoms = append(bottoms, bfN(op, kids...))
				}
			}
		}
		lv := []string{"p", "q", "r", "s"}
		var rec func(g *BF, depth int) bool
		rec = func(g *BF, depth int) bool {
			if depth > 0 && !yield("chain", g) {
				return false
			}
			if depth == 4 {
				return true
			}
			ks := kinds
			if depth == 3 && !thorough {
				ks = kinds[:5]
			}
			for _, k := range ks {
				if !rec(wrap(k, bfVar(lv[depth]), g), depth+1) {
					return false
				}
			}
			return true
		}
		for _, b := range bottoms {
			if !rec(b, 0) {
				return
			}
		}
	}
	if thorough {
		// depth 3 over {a,b}
		l2 := []*BF{bfVar("a"), bfVar("b")}
		d1 := bfLevel1(l2, 2)
		var d2 []*BF
		for _, op := range []string{"and", "or", "implies", "eq", "xor"} {
			for _, a := range d1 {
				for _, b := range d1 {
					d2 = append(d2, bfN(op, a, b))
				}
			}
		}
		for _, x := range d2 {
			for _, y := range d1 {
				for _, op := range []string{"and", "or", "eq", "implies"} {
					if !yield("depth3", bfN(op, x, y)) || !yield("depth3", bfN("not", bfN(op, y, x))) {
						return
					}
				}
			}
		}
	}
}

type c11 struct{}

func (c11) ID() string    { return "C11" }
func (c11) Level() string { return "exploration" }
func (c11) Rule() string {
	return "cases = formula trees built with the public constructors: every tree of depth <=1 over leaves {a,b,c,true,false, exactly-one groups of 0..6 names} with Not, And/Or of 0..3 children, Implies, Eq, Xor, each also under one and two negations; every depth-2 tree with a binary connective over the depth-1 trees of a reduced leaf set (a,b,true,false, groups of 1,4,5 names), And/Or also negated; ternary And/Or of depth-1 trees; chains: a conjunction or disjunction of 2..5 literals under 1..4 nested connectives each bringing one fresh variable (thorough: larger leaf sets, every connective negated, depth 3 over {a,b}). Oracle: bf.Solve returns nil iff the reference truth table is all false; otherwise the returned map makes the formula true under every completion of the names it omits. Non-trivial = the formula is neither a tautology nor a contradiction."
}
func (c11) Assumptions() []string {
	return []string{"the reference evaluator uses the standard semantics (empty conjunction true, empty disjunction false, exactly-one = exactly one name true)", "extra keys in the returned map (auxiliary names) are ignored"}
}
func (c11) Decode(raw json.RawMessage) (core.Case, error) {
	var c BFCase
	err := json.Unmarshal(raw, &c)
	return c, err
}
func (c11) Enumerate(tier string, seed int64, yield func(string, core.Case) bool) {
	enumBF(tier, func(fam string, f *BF) bool { return yield(fam, BFCase{F: f}) })
}

func bfTrigger(f *BF) string {
	big, _ := f.uniquePolarity()
	if big {
		return "/exactly-one>4-names-at-non-positive-polarity"
	}
	return ""
}

func (c11) Exec(cc core.Case, r *core.Rec) []core.Failure {
	c := cc.(BFCase)
	r.Execution()
	names := c.F.VarNames()
	table := c.F.Table(names)
	nTrue := 0
	for _, b := range table {
		if b {
			nTrue++
		}
	}
	if nTrue > 0 && nTrue < len(table) {
		r.NonTrivial()
	}
	trig := bfTrigger(c.F)
	var fs []core.Failure
	add := func(kind, detail string) {
		fs = append(fs, core.Failure{Sig: "bf.Solve/" + kind + trig, Detail: detail})
	}
	var model map[string]bool
	pn, ab := guard(func() { model = bf.Solve(c.F.Build()) })
	if pn != "" {
		add("panic@"+lastPanicSite, pn)
		return fs
	}
	if ab {
		add("nontermination", "step budget exceeded")
		return fs
	}
	r.Outcome(fmt.Sprintf("models=%d/answer=%v", min3(nTrue), model != nil))
	if model == nil {
		if nTrue > 0 {
			add("nil-on-satisfiable", fmt.Sprintf("%s has %d satisfying assignments over %v, Solve returned nil", c.F, nTrue, names))
		}
		return fs
	}
	if nTrue == 0 {
		add("model-on-unsatisfiable", fmt.Sprintf("%s is false under every assignment, Solve returned %v", c.F, model))
		return fs
	}
	// every completion of the omitted names must satisfy the formula
	var free []int
	base := 0
	for i, n := range names {
		v, ok := model[n]
		if !ok {
			free = append(free, i)
		} else if v {
			base |= 1 << uint(i)
		}
	}
	for x := 0; x < 1<<uint(len(free)); x++ {
		a := base
		for j, i := range free {
			if x>>uint(j)&1 == 1 {
				a |= 1 << uint(i)
			}
		}
		if !table[a] {
			add("wrong-model", fmt.Sprintf("%s: returned %v (names %v, omitted ones completed) does not satisfy the formula", c.F, model, names))
			return fs
		}
	}
	r.Sample("formula", 3, c.F.String())
	return fs
}

// ---------------------------------------------------------------------------

type c12 struct{}

func (c12) ID() string    { return "C12" }
func (c12) Level() string { return "exploration" }
func (c12) Rule() string {
	return "cases = the formula trees of C11 in which exactly-one groups occur at positive polarity only. Oracle: the bytes written by bf.Dimacs are parsed by a reference DIMACS reader: header counts equal the actual numbers, literals within range, every 'c name=idx' comment maps a name of the formula to a distinct index in range; all models of the exported CNF are enumerated by truth table (<=20 variables) and, for every assignment of the formula's names, the formula is true iff some model of the export agrees with it on the mapped names (names the translation eliminated are unconstrained). Non-trivial = the export has at least one clause and the formula is neither valid nor contradictory."
}
func (c12) Assumptions() []string {
	return []string{"reference evaluator and truth-table oracle are correct", "exports with more than 20 variables are skipped (counted)"}
}
func (c12) Decode(raw json.RawMessage) (core.Case, error) {
	var c BFCase
	err := json.Unmarshal(raw, &c)
	return c, err
}
func (c12) Enumerate(tier string, seed int64, yield func(string, core.Case) bool) {
	enumBF(tier, func(fam string, f *BF) bool {
		if _, anyNeg := f.uniquePolarity(); anyNeg {
			return true
		}
		return yield(fam, BFCase{F: f})
	})
}

func (c12) Exec(cc core.Case, r *core.Rec) []core.Failure {
	c := cc.(BFCase)
	r.Execution()
	var fs []core.Failure
	add := func(kind, detail string) { fs = append(fs, core.Failure{Sig: "bf.Dimacs/" + kind, Detail: detail}) }
	var buf bytes.Buffer
	var err error
	pn, _ := guard(func() { err = bf.Dimacs(c.F.Build(), &buf) })
	if pn != "" {
		add("panic@"+lastPanicSite, pn)
		return fs
	}
	if err != nil {
		add("error", err.Error())
		return fs
	}
	text := buf.String()
	// reference DIMACS reading
	nv, nc := -1, -1
	var clauses [][]int
	mapped := map[string]int{}
	usedIdx := map[int]string{}
	var cur []int
	for _, ln := range strings.Split(text, "\n") {
		t := strings.TrimSpace(ln)
		if t == "" {
			continue
		}
		if strings.HasPrefix(t, "p ") {
			fl := strings.Fields(t)
			if len(fl) != 4 || fl[1] != "cnf" || nv != -1 {
				add("malformed-header", fmt.Sprintf("%q", ln))
				return fs
			}
			nv, _ = strconv.Atoi(fl[2])
			nc, _ = strconv.Atoi(fl[3])
			continue
		}
		if strings.HasPrefix(t, "c") {
			rest := strings.TrimSpace(strings.TrimPrefix(t, "c"))
			if i := strings.LastIndex(rest, "="); i > 0 {
				name := rest[:i]
				idx, e := strconv.Atoi(rest[i+1:])
				if e != nil {
					add("malformed-name-comment", fmt.Sprintf("%q", ln))
					return fs
				}
				if _, dup := mapped[name]; dup {
					add("name-mapped-twice", fmt.Sprintf("%q", ln))
					return fs
				}
				if other, dup := usedIdx[idx]; dup {
					add("index-shared-by-two-names", fmt.Sprintf("%s and %s both map to %d", other, name, idx))
					return fs
				}
				mapped[name] = idx
				usedIdx[idx] = name
			}
			continue
		}
		if nv == -1 {
			add("clause-before-header", fmt.Sprintf("%q", ln))
			return fs
		}
		for _, tok := range strings.Fields(t) {
			v, e := strconv.Atoi(tok)
			if e != nil {
				add("malformed-clause", fmt.Sprintf("%q", ln))
				return fs
			}
			if v == 0 {
				clauses = append(clauses, cur)
				cur = nil
			} else {
				if v > nv || -v > nv {
					add("literal-out-of-range", fmt.Sprintf("literal %d with %d variables declared", v, nv))
					return fs
				}
				cur = append(cur, v)
			}
		}
	}
	if cur != nil {
		add("unterminated-clause", "last clause has no terminating 0")
		return fs
	}
	if nv == -1 {
		add("no-header", text)
		return fs
	}
	if nc != len(clauses) {
		add("header-clause-count", fmt.Sprintf("header says %d clauses, %d written", nc, len(clauses)))
		return fs
	}
	names := c.F.VarNames()
	isName := map[string]bool{}
	for _, n := range names {
		isName[n] = true
	}
	for n, idx := range mapped {
		if !isName[n] {
			add("comment-for-unknown-name", fmt.Sprintf("%q is not a variable of the formula", n))
			return fs
		}
		if idx < 1 || idx > nv {
			add("name-index-out-of-range", fmt.Sprintf("%s=%d with %d variables", n, idx, nv))
			return fs
		}
	}
	// every variable used in a clause and not auxiliary must be named: not checkable from the
	// text alone; the model comparison below decides.
	if nv > 20 {
		r.Count("skipped_export_with_more_than_20_variables", 1)
		return nil
	}
	models := tt.Models(nv, clausesToTT(clauses))
	// projection onto mapped names
	reach := map[int]bool{}
	var mnames []string
	for _, n := range names {
		if _, ok := mapped[n]; ok {
			mnames = append(mnames, n)
		}
	}
	models.Each(func(a uint32) {
		key := 0
		for i, n := range mnames {
			if a>>uint(mapped[n]-1)&1 == 1 {
				key |= 1 << uint(i)
			}
		}
		reach[key] = true
	})
	table := c.F.Table(names)
	nTrue := 0
	for a, want := range table {
		if want {
			nTrue++
		}
		key := 0
		for i, n := range mnames {
			// position of n in names
			for j, x := range names {
				if x == n && a>>uint(j)&1 == 1 {
					key |= 1 << uint(i)
				}
			}
		}
		if want != reach[key] {
			m := map[string]bool{}
			for j, x := range names {
				m[x] = a>>uint(j)&1 == 1
			}
			if want {
				add("formula-model-lost", fmt.Sprintf("%s is true under %v but no model of the export agrees with it on the mapped names %v\n%s", c.F, m, mnames, text))
			} else {
				add("export-model-not-a-formula-model", fmt.Sprintf("%s is false under %v but a model of the export restricts to it (mapped names %v)\n%s", c.F, m, mnames, text))
			}
			return fs
		}
	}
	if len(clauses) > 0 && nTrue > 0 && nTrue < len(table) {
		r.NonTrivial()
	}
	r.Outcome(fmt.Sprintf("vars=%d/clauses=%d/mapped=%d", min3(nv), min3(len(clauses)), min3(len(mnames))))
	r.Sample("formula", 3, c.F.String())
	return fs
}

func init() { core.Register(c11{}); core.Register(c12{}) }
