package scen

import (
	"encoding/json"
	"fmt"
	"strconv"
	"strings"

	"github.com/crillab/gophersat/explain"
	"github.com/crillab/gophersat/solver"

	"verifmc/internal/core"
	"verifmc/internal/tt"
)

// C13 — DIMACS, OPB and WCNF texts mean what their formats say.

type FmtCase struct {
	Kind   string   `json:"kind"` // cnf | cnf-explain | opb | wcnf
	Layout string   `json:"layout"`
	Text   string   `json:"text"`
	F      [][]int  `json:"f,omitempty"` // cnf reference
	N      int      `json:"n"`
	P      *Prob    `json:"p,omitempty"` // opb reference
	M      *MaxCase `json:"m,omitempty"` // wcnf reference
	// Long lines are kept out of the case (and of the replay file): Text holds the marker longMark where a filler of
	// Long bytes built from the unit Fill is inserted before the text is handed to the reader.
	Long int    `json:"long,omitempty"`
	Fill string `json:"fill,omitempty"`
}

const longMark = "\x00LONG\x00"

// expand replaces the marker by the filler: Fill repeated up to at least Long bytes (whole units only).
func (c FmtCase) expand() string {
	if c.Long == 0 {
		return c.Text
	}
	n := c.Long/len(c.Fill) + 1
	return strings.Replace(c.Text, longMark, strings.Repeat(c.Fill, n), 1)
}

// Line lengths around the two buffer sizes of the I/O layer the readers sit on (bufio.Reader: 4096 bytes,
// bufio.Scanner: 64 KiB maximal token by default).
var longSizes = []int{4100, 70000}

type c13 struct{}

func (c13) ID() string    { return "C13" }
func (c13) Level() string { return "exploration" }
func (c13) Rule() string {
	return "cases = semantic objects x layouts, both enumerated. DIMACS: every CNF of T2 (<=2 clauses) and S3 (<=3 clauses), declared n or n+1, under the layouts {canonical, comment lines before the header, comment line between clauses, double space / tab separators, a clause split over two lines at every position, two clauses on one line, CRLF line ends, no final newline}; read by solver.ParseCNF and explain.ParseCNF. OPB: every set of <=2 constraints over <=3 variables with coefficients in [-2..2], relation >= or =, every degree, optional min: line with coefficients in [-2..2], under the layouts {canonical with explicit '+', no '+', '~x' for negated literals instead of negative coefficients, no space before ';', double spaces, comment lines first/between/last, no final newline}. WCNF: the C04 texts under {canonical, comment lines, double spaces, no final newline}. Oracle: parsing neither fails nor panics; the parsed problem read structurally (Units, Clauses, Status, cost function accessor) has exactly the object's models and the object's cost for every model; Solve/Optimal on it agree with the truth table. Non-trivial = the layout is not the canonical one or the object has at least two constraints."
}
func (c13) Assumptions() []string {
	return []string{"only layouts licensed by the published formats are generated: DIMACS comments start with 'c' in column 1 and blank lines are not generated (the format does not define them); OPB has one statement per line ending with ';', coefficient and variable separated by blanks, no trailing blanks, LF line ends; WCNF clause lines start with the weight", "truth-table reference is correct"}
}
func (c13) Decode(raw json.RawMessage) (core.Case, error) {
	var c FmtCase
	err := json.Unmarshal(raw, &c)
	return c, err
}

// dimacsLayouts renders f under every layout; yields (layoutName, text).
func dimacsLayouts(f [][]int, n int, yield func(layout, text string) bool) bool {
	cl := func(c []int, sep string) string {
		var parts []string
		for _, l := range c {
			parts = append(parts, fmt.Sprint(l))
		}
		parts = append(parts, "0")
		return strings.Join(parts, sep)
	}
	header := fmt.Sprintf("p cnf %d %d", n, len(f))
	lines := func(sep string) []string {
		out := []string{header}
		for _, c := range f {
			out = append(out, cl(c, sep))
		}
		return out
	}
	canon := lines(" ")
	join := func(ls []string, eol string, final bool) string {
		s := strings.Join(ls, eol)
		if final {
			s += eol
		}
		return s
	}
	if !yield("canonical", join(canon, "\n", true)) {
		return false
	}
	if !yield("comments-first", join(append([]string{"c a comment", "c another 1 -2 0"}, canon...), "\n", true)) {
		return false
	}
	if !yield("double-space", join(lines("  "), "\n", true)) || !yield("tab", join(lines("\t"), "\n", true)) {
		return false
	}
	if !yield("crlf", join(canon, "\r\n", true)) || !yield("no-final-newline", join(canon, "\n", false)) {
		return false
	}
	if len(f) >= 1 {
		// comment between clauses (after the first clause)
		ls := append([]string{}, canon[:2]...)
		ls = append(ls, "c between clauses")
		ls = append(ls, canon[2:]...)
		if !yield("comment-between-clauses", join(ls, "\n", true)) {
			return false
		}
	}
	// a clause split over two lines at every position
	for i, c := range f {
		toks := strings.Split(cl(c, " "), " ")
		for cut := 1; cut < len(toks); cut++ {
			ls := append([]string{}, canon[:1+i]...)
			ls = append(ls, strings.Join(toks[:cut], " "), strings.Join(toks[cut:], " "))
			ls = append(ls, canon[2+i:]...)
			if !yield("clause-split-over-lines", join(ls, "\n", true)) {
				return false
			}
		}
	}
	// two clauses on one line
	for i := 0; i+1 < len(f); i++ {
		ls := append([]string{}, canon[:1+i]...)
		ls = append(ls, canon[1+i]+" "+canon[2+i])
		ls = append(ls, canon[3+i:]...)
		if !yield("two-clauses-on-one-line", join(ls, "\n", true)) {
			return false
		}
	}
	return true
}

// dimacsLong renders f with one line longer than a buffer of the I/O layer: a comment line (before the header or
// between clauses) whose tail is prose or integers that would be clauses if they leaked into the clause stream, and a
// clause line made long by repeating its first literal (repeated literals are legal). long is one of longSizes.
func dimacsLong(f [][]int, n int, long int, weights []string, header string, yield func(layout, text, fill string) bool) bool {
	cl := func(i int, c []int) string {
		var parts []string
		if weights != nil {
			parts = append(parts, weights[i])
		}
		for _, l := range c {
			parts = append(parts, fmt.Sprint(l))
		}
		return strings.Join(append(parts, "0"), " ")
	}
	var body []string
	for i, c := range f {
		body = append(body, cl(i, c))
	}
	tag := fmt.Sprintf("-%d", long)
	for _, fill := range []string{"lorem ipsum ", "1 0 -1 0 "} {
		kind := "prose"
		if fill[0] == '1' {
			kind = "ints"
		}
		first := append([]string{"c " + longMark, header}, body...)
		if !yield("long-comment-first-"+kind+tag, strings.Join(first, "\n")+"\n", fill) {
			return false
		}
		if len(body) >= 1 {
			mid := append([]string{header, body[0], "c " + longMark}, body[1:]...)
			if !yield("long-comment-between-"+kind+tag, strings.Join(mid, "\n")+"\n", fill) {
				return false
			}
		}
	}
	for i, c := range f {
		if len(c) == 0 {
			continue
		}
		var parts []string
		if weights != nil {
			parts = append(parts, weights[i])
		}
		parts = append(parts, fmt.Sprint(c[0]), longMark)
		for _, l := range c[1:] {
			parts = append(parts, fmt.Sprint(l))
		}
		ls := append([]string{header}, body[:i]...)
		ls = append(ls, strings.Join(append(parts, "0"), " "))
		ls = append(ls, body[i+1:]...)
		// the filler has no trailing blank: the marker is followed by " <next token>"
		if !yield("long-clause-line"+tag, strings.Join(ls, "\n")+"\n", fmt.Sprint(c[0])+" ") {
			return false
		}
		break // the first non-empty clause only
	}
	return true
}

// opbLayouts renders p (constraints of kind ge/eq, optional cost) under every layout.
func opbLayouts(p Prob, yield func(layout, text string) bool) bool {
	type style struct {
		name       string
		plus       bool // explicit '+' on positive coefficients
		tilde      bool // negative literals written ~x (otherwise the caller's literal sign is kept as ~x anyway)
		sepSemi    string
		sep        string
		final      bool
		commentPos int // 0 none, 1 first, 2 between, 3 last
	}
	styles := []style{
		{"canonical", true, true, " ", " ", true, 0},
		{"no-plus", false, true, " ", " ", true, 0},
		{"no-space-before-semicolon", true, true, "", " ", true, 0},
		{"double-space", true, true, "  ", "  ", true, 0},
		{"comment-first", true, true, " ", " ", true, 1},
		{"comment-between", true, true, " ", " ", true, 2},
		{"comment-last", true, true, " ", " ", true, 3},
		{"no-final-newline", true, true, " ", " ", false, 0},
	}
	term := func(w, l int, st style) string {
		ws := fmt.Sprint(w)
		if st.plus && w >= 0 {
			ws = "+" + ws
		}
		if l < 0 {
			return ws + st.sep + fmt.Sprintf("~x%d", -l)
		}
		return ws + st.sep + fmt.Sprintf("x%d", l)
	}
	for _, st := range styles {
		var ls []string
		if p.CostL != nil {
			parts := []string{"min:"}
			for i, l := range p.CostL {
				w := 1
				if p.CostW != nil {
					w = p.CostW[i]
				}
				parts = append(parts, term(w, l, st))
			}
			ls = append(ls, strings.Join(parts, st.sep)+st.sepSemi+";")
		}
		for _, c := range p.Cs {
			var parts []string
			for i, l := range c.L {
				parts = append(parts, term(c.W[i], l, st))
			}
			rel := ">="
			if c.T == "eq" {
				rel = "="
			}
			parts = append(parts, rel, fmt.Sprint(c.K))
			ls = append(ls, strings.Join(parts, st.sep)+st.sepSemi+";")
		}
		switch st.commentPos {
		case 1:
			ls = append([]string{"* #variable= 3 #constraint= 2", "* a comment"}, ls...)
		case 2:
			if len(ls) >= 2 {
				ls = append(ls[:1], append([]string{"* between"}, ls[1:]...)...)
			} else {
				continue
			}
		case 3:
			ls = append(ls, "* last line")
		}
		text := strings.Join(ls, "\n")
		if st.final {
			text += "\n"
		}
		if !yield(st.name, text) {
			return false
		}
	}
	return true
}

// opbLong renders p canonically with one line longer than a buffer of the I/O layer: a comment line (first, between,
// last) or a constraint line padded with blanks in front of its degree.
func opbLong(p Prob, long int, yield func(layout, text, fill string) bool) bool {
	var canon string
	opbLayouts(p, func(layout, text string) bool { canon = text; return false }) // the first layout is the canonical one
	ls := strings.Split(strings.TrimSuffix(canon, "\n"), "\n")
	tag := fmt.Sprintf("-%d", long)
	join := func(x []string) string { return strings.Join(x, "\n") + "\n" }
	for _, fill := range []string{"lorem ipsum ", "+1 x1 >= 1 ; -1 x1 >= 0 ; "} {
		kind := "prose"
		if fill[0] == '+' {
			kind = "statements"
		}
		com := "* " + longMark
		if !yield("long-comment-first-"+kind+tag, join(append([]string{com}, ls...)), fill) {
			return false
		}
		if !yield("long-comment-last-"+kind+tag, join(append(append([]string{}, ls...), com)), fill) {
			return false
		}
		if len(ls) >= 2 {
			mid := append([]string{ls[0], com}, ls[1:]...)
			if !yield("long-comment-between-"+kind+tag, join(mid), fill) {
				return false
			}
		}
	}
	for i, l := range ls { // every statement in turn padded in front of its last-but-one token (the degree, or the last variable of min:)
		toks := strings.Split(l, " ")
		if len(toks) < 3 {
			continue
		}
		k := len(toks) - 2
		padded := strings.Join(toks[:k], " ") + " " + longMark + strings.Join(toks[k:], " ")
		x := append(append(append([]string{}, ls[:i]...), padded), ls[i+1:]...)
		if !yield("long-statement-line"+tag, join(x), " ") {
			return false
		}
	}
	return true
}

func (c13) Enumerate(tier string, seed int64, yield func(string, core.Case) bool) {
	thorough := tier == "thorough"
	// DIMACS
	// long-line layouts: 4100-byte lines on every longEvery[0]-th object of a format, 70000-byte lines on every longEvery[1]-th
	longEvery := []int{5, 50}
	if thorough {
		longEvery = []int{2, 10}
	}
	nCnf := 0
	cnf := func(f [][]int, n int) bool {
		for _, decl := range []int{n, n + 1} {
			ok := dimacsLayouts(f, decl, func(layout, text string) bool {
				return yield("dimacs/"+layout, FmtCase{Kind: "cnf", Layout: layout, Text: text, F: f, N: decl}) &&
					yield("dimacs-explain/"+layout, FmtCase{Kind: "cnf-explain", Layout: layout, Text: text, F: f, N: decl})
			})
			if !ok {
				return false
			}
			nCnf++
			for k, long := range longSizes {
				if nCnf%longEvery[k] != 0 {
					continue
				}
				ok := dimacsLong(f, decl, long, nil, fmt.Sprintf("p cnf %d %d", decl, len(f)), func(layout, text, fill string) bool {
					return yield("dimacs/long", FmtCase{Kind: "cnf", Layout: layout, Text: text, F: f, N: decl, Long: long, Fill: fill}) &&
						yield("dimacs-explain/long", FmtCase{Kind: "cnf-explain", Layout: layout, Text: text, F: f, N: decl, Long: long, Fill: fill})
				})
				if !ok {
					return false
				}
			}
		}
		return true
	}
	if !famT2(2, -1, cnf) {
		return
	}
	s3 := 2
	if thorough {
		s3 = 3
	}
	if !famS3(s3, s3, cnf) {
		return
	}
	if !thorough { // three-clause formulas: S3 multisets
		if !famS3(-1, 3, func(f [][]int, n int) bool {
			if len(f) != 3 {
				return true
			}
			return cnf(f, n)
		}) {
			return
		}
	}
	// OPB
	al := pbAlphabet(3, 1, 2, -2, 2, []string{"ge", "eq"}, false)
	if thorough {
		al = pbAlphabet(3, 1, 3, -2, 2, []string{"ge", "eq"}, false)
	}
	costs := [][2][]int{{nil, nil}}
	for _, cf := range costFunctions(3, 2, -2, 2, false) {
		costs = append(costs, cf)
	}
	nOpb := 0
	opb := func(cs []Con, cf [2][]int) bool {
		p := Prob{Front: "opb", N: 3, Cs: cpCons(cs...)}
		if cf[0] != nil {
			p.CostL, p.CostW = cf[0], cf[1]
		}
		if !opbLayouts(p, func(layout, text string) bool {
			q := p
			return yield("opb/"+layout, FmtCase{Kind: "opb", Layout: layout, Text: text, P: &q, N: 3})
		}) {
			return false
		}
		nOpb++
		for k, long := range longSizes {
			if nOpb%longEvery[k] != 0 {
				continue
			}
			if !opbLong(p, long, func(layout, text, fill string) bool {
				q := p
				return yield("opb/long", FmtCase{Kind: "opb", Layout: layout, Text: text, P: &q, N: 3, Long: long, Fill: fill})
			}) {
				return false
			}
		}
		return true
	}
	for _, a := range al {
		for ci, cf := range costs {
			if ci > 0 && ci%3 != 0 && !thorough {
				continue
			}
			if !opb([]Con{a}, cf) {
				return
			}
		}
	}
	a2 := pbAlphabet(2, 1, 2, -1, 2, []string{"ge", "eq"}, false)
	if thorough {
		a2 = pbAlphabet(2, 1, 2, -2, 2, []string{"ge", "eq"}, false)
	}
	for i, a := range a2 {
		for j, b := range a2 {
			if !thorough && (i*31+j)%5 != 0 { // every 5th pair in quick, all in thorough
				continue
			}
			if !opb([]Con{a, b}, costs[0]) {
				return
			}
		}
	}
	// WCNF: reuse the C04 text family and add layouts
	nWcnf := 0
	c04{}.Enumerate(tier, seed, func(fam string, cc core.Case) bool {
		m := cc.(MaxCase)
		if m.API || m.Chan {
			return true
		}
		variants := map[string]string{
			"canonical":        m.Text,
			"comments":         "c first\n" + strings.Replace(m.Text, "\n", "\nc after header\n", 1),
			"double-space":     strings.ReplaceAll(m.Text, " ", "  "),
			"no-final-newline": strings.TrimSuffix(m.Text, "\n"),
		}
		for _, name := range []string{"canonical", "comments", "double-space", "no-final-newline"} {
			mm := m
			mm.Text = variants[name]
			if !yield("wcnf/"+name, FmtCase{Kind: "wcnf", Layout: name, Text: variants[name], M: &mm, N: m.N}) {
				return false
			}
		}
		nWcnf++
		for k, long := range longSizes {
			if nWcnf%longEvery[k] != 0 {
				continue
			}
			// the text family of C04 is canonical: a header line, then one clause per line starting with its weight
			ls := strings.Split(strings.TrimSuffix(m.Text, "\n"), "\n")
			var f [][]int
			var ws []string
			for _, l := range ls[1:] {
				toks := strings.Fields(l)
				ws = append(ws, toks[0])
				var c []int
				for _, t := range toks[1 : len(toks)-1] {
					v, _ := strconv.Atoi(t)
					c = append(c, v)
				}
				f = append(f, c)
			}
			if !dimacsLong(f, m.N, long, ws, ls[0], func(layout, text, fill string) bool {
				mm := m
				mm.Text = text
				return yield("wcnf/long", FmtCase{Kind: "wcnf", Layout: layout, Text: text, M: &mm, N: m.N, Long: long, Fill: fill})
			}) {
				return false
			}
		}
		return true
	})
}

func (c13) Exec(cc core.Case, r *core.Rec) []core.Failure {
	c := cc.(FmtCase)
	r.Execution()
	var fs []core.Failure
	shown := c.Text
	c.Text = c.expand()
	if c.Long > 0 {
		shown = fmt.Sprintf("%s\n(the marker stands for %q repeated up to %d bytes)", strings.Replace(shown, longMark, "<LONG>", 1), c.Fill, c.Long)
		r.Count("long_line_texts", 1)
	}
	entry := map[string]string{"cnf": "solver.ParseCNF", "cnf-explain": "explain.ParseCNF", "opb": "solver.ParseOPB", "wcnf": "maxsat.ParseWCNF"}[c.Kind]
	add := func(kind, detail string) {
		fs = append(fs, core.Failure{Sig: entry + "/" + kind + "/" + c.Layout, Detail: fmt.Sprintf("%s\ntext:\n%s", detail, shown)})
	}
	if c.Layout != "canonical" {
		r.NonTrivial()
	}
	r.Outcome(c.Kind + "/" + c.Layout)
	switch c.Kind {
	case "cnf":
		want := tt.Models(c.N, clausesToTT(c.F))
		var pb *solver.Problem
		var err error
		pn, _ := guard(func() { pb, err = solver.ParseCNF(strings.NewReader(c.Text)) })
		if pn != "" {
			add("panic", pn)
			return fs
		}
		if err != nil {
			add("error-on-wellformed-text", err.Error())
			return fs
		}
		if pb.NbVars != c.N {
			add("variable-count", fmt.Sprintf("NbVars=%d, the header declares %d", pb.NbVars, c.N))
			return fs
		}
		got, e := evalStructural(pb, c.N)
		if e != nil {
			add("malformed-problem", e.Error())
			return fs
		}
		if !got.Equal(want) {
			add("different-models", fmt.Sprintf("the parsed problem has %d models, the text %d", got.Count(), want.Count()))
			return fs
		}
		var st solver.Status
		var model []bool
		pn, ab := guard(func() {
			s := solver.New(pb)
			st = s.Solve()
			if st == solver.Sat {
				model = s.Model()
			}
		})
		r.Execution()
		if pn != "" || ab {
			add("solve-panic", pn)
			return fs
		}
		if (st == solver.Sat) != !want.IsEmpty() || (st == solver.Sat && (len(model) != c.N || !want.Has(tt.FromBools(model)))) {
			add("solve-disagrees", fmt.Sprintf("status %v model %v", st, model))
		}
	case "cnf-explain":
		var pb *explain.Problem
		var err error
		pn, _ := guard(func() { pb, err = explain.ParseCNF(strings.NewReader(c.Text)) })
		if pn != "" {
			add("panic", pn)
			return fs
		}
		if err != nil {
			add("error-on-wellformed-text", err.Error())
			return fs
		}
		if pb.NbVars != c.N {
			add("variable-count", fmt.Sprintf("NbVars=%d, the header declares %d", pb.NbVars, c.N))
			return fs
		}
		if mv := maxVarCNF(pb.Clauses); mv > c.N {
			add("malformed-problem", "clause mentions an undeclared variable")
			return fs
		}
		want := tt.Models(c.N, clausesToTT(c.F))
		got := tt.Models(c.N, clausesToTT(pb.Clauses))
		if !got.Equal(want) || len(pb.Clauses) != len(c.F) || pb.NbClauses != len(c.F) {
			add("different-models", fmt.Sprintf("parsed clauses %v (NbClauses=%d), the text says %v", pb.Clauses, pb.NbClauses, c.F))
		}
	case "opb":
		p := *c.P
		n := 3
		want := tt.Models(n, p.Ref())
		var pb *solver.Problem
		var err error
		pn, _ := guard(func() { pb, err = solver.ParseOPB(strings.NewReader(c.Text)) })
		if pn != "" {
			add("panic", pn)
			return fs
		}
		if err != nil {
			add("error-on-wellformed-text", err.Error())
			return fs
		}
		if pb.NbVars > n {
			add("variable-count", fmt.Sprintf("NbVars=%d", pb.NbVars))
			return fs
		}
		got, e := evalStructural(pb, n)
		if e != nil {
			add("malformed-problem", e.Error())
			return fs
		}
		if !got.Equal(want) {
			add("different-models", fmt.Sprintf("the parsed problem has %d models over %d variables, the text %d", got.Count(), n, want.Count()))
			return fs
		}
		lits, weights := solver.VerifCostFunc(pb)
		if (lits != nil) != (p.CostL != nil) {
			add("cost-function-presence", fmt.Sprintf("parsed cost literals %v, text %v", lits, p.CostL))
			return fs
		}
		if p.CostL != nil {
			il := litsToInts(lits)
			bad := false
			want.Each(func(a uint32) {
				if tt.Cost(il, weights, a) != tt.Cost(p.CostL, p.CostW, a) {
					bad = true
				}
			})
			if bad {
				add("different-cost", fmt.Sprintf("parsed cost function %v %v, text %v %v", il, weights, p.CostL, p.CostW))
				return fs
			}
		}
		// Optimal on the parsed problem agrees with the truth table
		for _, l := range p.CostL {
			if l > pb.NbVars || -l > pb.NbVars {
				return fs // cost over a variable no constraint mentions: outside the front end's domain (see C03)
			}
		}
		var res solver.Result
		pn, ab := guard(func() { res = solver.New(pb).Optimal(nil, nil) })
		r.Execution()
		if pn != "" || ab {
			add("optimal-panic", pn)
			return fs
		}
		best, sat := tt.MinCost(want, p.CostL, p.CostW)
		if p.CostL == nil {
			best = 0
		}
		switch {
		case !sat && res.Status != solver.Unsat:
			add("optimal-disagrees", fmt.Sprintf("status %v on an unsatisfiable text", res.Status))
		case sat && res.Status != solver.Sat:
			add("optimal-disagrees", fmt.Sprintf("status %v on a satisfiable text", res.Status))
		case sat:
			if !modelOK(want, res.Model) {
				add("optimal-disagrees", fmt.Sprintf("model %v violates the text", res.Model))
			} else if res.Weight != best {
				add("optimal-disagrees", fmt.Sprintf("cost %d, minimum %d", res.Weight, best))
			}
		}
	case "wcnf":
		mc := *c.M
		mc.Text = c.Text
		sub := c04{}.Exec(mc, r)
		for _, f := range sub {
			f.Sig = strings.Replace(f.Sig, "ParseWCNF.Optimal", "maxsat.ParseWCNF", 1) + "/" + c.Layout
			fs = append(fs, f)
		}
	}
	if len(fs) == 0 {
		r.Sample("text/"+c.Kind, 1, map[string]string{"layout": c.Layout, "text": shown})
	}
	return fs
}

func init() { core.Register(c13{}) }
