package scen

import (
	"encoding/json"
	"fmt"

	"github.com/crillab/gophersat/solver"

	"verifmc/internal/choice"
	"verifmc/internal/core"
	"verifmc/internal/tt"
)

// C14 — the cutting-planes strategy never changes an answer.

type c14 struct{}

func (c14) ID() string    { return "C14" }
func (c14) Level() string { return "exploration" }
func (c14) Rule() string {
	return "cases = problems (CNF from S3/S4 and conflict-rich seeds, pigeonhole as cardinality constraints PHP(3,2)..PHP(5,4) with one-edit neighbours, cardinality/PB sets of C02, PB pairs over 3-4 variables) with and without a cost function x {DetectAtMostOne first, not}; each case is run with CuttingPlanes on under every heuristic choice list (<=1 deviation: forced Luby restart, forced reduction of learned PB constraints, decision steering) and once with it off. Oracle: verdict and optimum equal to the truth table and to the strategy-off run; models satisfy the original constraints; every constraint or unit handed out by the cutting-planes learner (verif hook) is implied by the problem together with the cost bound in force when it was learned. Non-trivial = at least one constraint was learned by cutting planes."
}
func (c14) Assumptions() []string {
	return []string{"truth-table reference is correct", "the hook verifLearnedPB sees every constraint produced by cuttingPlanes before it is used"}
}
func (c14) Decode(raw json.RawMessage) (core.Case, error) {
	var c ProbCase
	err := json.Unmarshal(raw, &c)
	return c, err
}

// phpCard: pigeonhole with cardinality constraints: each pigeon in at least one hole,
// each hole holds at most one pigeon.
func phpCard(p, h int) []Con {
	v := func(i, j int) int { return i*h + j + 1 }
	var cs []Con
	for i := 0; i < p; i++ {
		var l []int
		for j := 0; j < h; j++ {
			l = append(l, v(i, j))
		}
		cs = append(cs, Con{T: "atl", L: l, K: 1})
	}
	for j := 0; j < h; j++ {
		var l []int
		for i := 0; i < p; i++ {
			l = append(l, v(i, j))
		}
		cs = append(cs, Con{T: "atm", L: l, K: 1})
	}
	return cs
}

func (c14) Enumerate(tier string, seed int64, yield func(string, core.Case) bool) {
	thorough := tier == "thorough"
	// tightTwin: the families below it are also run in the configuration "tight learned-constraint
	// limit" (the database of learned PB constraints is reduced at every opportunity of the solver's own
	// schedule, so constraints that are reasons of trail literals get deleted all along the run)
	tightTwin := false
	emit := func(fam string, p Prob, dev int, amoBoth bool) bool {
		mode := "solve"
		if p.CostL != nil {
			mode = "optimal-chan"
		}
		if !yield(fam, ProbCase{P: p, Dev: dev, Mode: mode, CP: true}) {
			return false
		}
		if tightTwin && !yield(fam+"/tight", ProbCase{P: p, Dev: dev, Mode: mode, CP: true, NbMax: -1}) {
			return false
		}
		if amoBoth {
			return yield(fam+"+amo", ProbCase{P: p, Dev: dev, Mode: mode, CP: true, AMO: true})
		}
		return true
	}
	withCosts := func(fam string, p Prob, n int, dev int, amo bool) bool {
		if !emit(fam, p, dev, amo) {
			return false
		}
		for _, cf := range costFunctions(n, 2, 1, 2, true) {
			q := p
			q.CostL, q.CostW = cf[0], cf[1]
			if !emit(fam+"/cost", q, 0, false) {
				return false
			}
		}
		return true
	}
	if !famS3(2, 3, func(f [][]int, n int) bool {
		if len(f) < 2 {
			return true
		}
		if len(f) == 3 {
			return emit("S3", cnfProb("slicenb", f, n, n), 1, true)
		}
		return withCosts("S3", cnfProb("slicenb", f, n, n), n, 1, false)
	}) {
		return
	}
	s4 := 3
	if thorough {
		s4 = 4
	}
	if !famS4(2, s4, func(f [][]int, n int) bool {
		d := 1
		if len(f) == 4 {
			d = 0
		}
		return emit("S4", cnfProb("slicenb", f, n, n), d, len(f) == 3)
	}) {
		return
	}
	tightTwin = true
	if !famM(seed, tier, func(name string, f [][]int, n int) bool {
		if n > 12 {
			return true
		}
		return emit("M/"+name, cnfProb("slicenb", f, n, n), 1, true)
	}) {
		return
	}
	// pigeonhole as cardinality constraints + one-edit neighbours
	sizes := [][2]int{{3, 2}, {4, 3}}
	if thorough {
		sizes = append(sizes, [2]int{5, 4})
	}
	for _, sz := range sizes {
		cs := phpCard(sz[0], sz[1])
		n := sz[0] * sz[1]
		name := fmt.Sprintf("phpcard%d%d", sz[0], sz[1])
		if !emit(name, Prob{Front: "pb", N: n, Cs: cpCons(cs...)}, 1, false) {
			return
		}
		for i := range cs {
			g := append(cpCons(cs[:i]...), cpCons(cs[i+1:]...)...)
			if !emit(name+"-del", Prob{Front: "pb", N: n, Cs: g}, 1, false) {
				return
			}
			for dk := -1; dk <= 1; dk += 2 {
				g = cpCons(cs...)
				g[i].K += dk
				if !emit(name+"-deg", Prob{Front: "pb", N: n, Cs: g}, 1, false) {
					return
				}
			}
			for j := range cs[i].L {
				g = cpCons(cs...)
				g[i].L[j] = -g[i].L[j]
				if !emit(name+"-flip", Prob{Front: "pb", N: n, Cs: g}, 1, false) {
					return
				}
			}
		}
		// optimisation: minimise the number of used holes of pigeon 0.. with costs on the first variables
		for _, cf := range costFunctions(3, 3, 1, 2, true) {
			g := cpCons(cs[:len(cs)-1]...) // satisfiable variant: drop the last at-most-one
			q := Prob{Front: "pb", N: n, Cs: g, CostL: cf[0], CostW: cf[1]}
			if !emit(name+"/cost", q, 0, false) {
				return
			}
		}
	}
	// cardinality constraints mixed with clauses over 4 variables (5 in thorough)
	{
		nv := 4
		var cards, cls []Con
		for _, l := range litSets(nv, 3, 4) {
			for k := 2; k < len(l); k++ {
				cards = append(cards, Con{T: "atl", L: l, K: k})
			}
		}
		for _, l := range litSets(nv, 2, 3) {
			cls = append(cls, Con{T: "atl", L: l, K: 1})
		}
		for i, a := range cards {
			for _, b := range cards[i:] {
				for _, c := range cls {
					if !emit("cardmix4", Prob{Front: "pb", N: nv, Cs: cpCons(a, b, c)}, 1, false) {
						return
					}
				}
				if thorough {
					for _, c := range cards {
						for _, d := range cls[:24] {
							if !emit("cardmix4x4", Prob{Front: "pb", N: nv, Cs: cpCons(a, b, c, d)}, 0, false) {
								return
							}
						}
					}
				}
			}
		}
	}
	// MC: a seeded catalogue of mixed clause/cardinality problems (5..10 variables) and ALL their
	// one-edit neighbours, each under every heuristic choice list with <=1 deviation.
	{
		nseeds := 1500
		if thorough {
			nseeds = 5000
		}
		if !enumMixedCatalogue(seed, nseeds, false, func(name string, p Prob) bool { return emit(name, p, 1, false) }) {
			return
		}
	}
	// MO: seeded catalogue of optimisation problems (8..12 variables, PB constraints, weighted cost function) with the
	// regression instances and all one-edit neighbours; cutting planes on (default choices) against off
	{
		nseeds := 500
		if thorough {
			nseeds = 3000
		}
		if !enumOptCatalogue(seed, nseeds, func(name string, p Prob) bool { return emit(name, p, 0, false) }) {
			return
		}
	}
	tightTwin = false
	pbn := 0
	enumConstraintSets(tier, func(fam string, p Prob) bool {
		switch fam {
		case "card1u", "pb1":
			return emit(fam, p, 1, false)
		case "card2":
			return emit(fam, p, 0, false)
		case "pb2n3":
			pbn++
			if pbn%23 == 0 || (thorough && pbn%29 == 0) {
				if !withCosts(fam, p, 3, 0, false) {
					return false
				}
			}
			if pbn%5 == 0 || thorough {
				return emit(fam, p, 1, false)
			}
			return emit(fam, p, 0, false)
		case "dec":
			if len(p.Cs) > 3 {
				return true
			}
			return emit(fam, p, 1, false)
		}
		return true
	})
}

type learnedEvt struct {
	c     *tt.Constr
	units []int
	lvl   int
	bound int // cost bound in force: cost < bound (maxInt when none)
}

const noBound = int(^uint(0) >> 1)

func clauseToTT(c *solver.Clause) tt.Constr {
	k := tt.Constr{K: c.Cardinality()}
	pb := c.PseudoBoolean()
	for i := 0; i < c.Len(); i++ {
		k.Lits = append(k.Lits, int(c.Get(i).Int()))
		if pb {
			k.Coefs = append(k.Coefs, c.Weight(i))
		}
	}
	return k
}

func (c14) Exec(cc core.Case, r *core.Rec) []core.Failure {
	c := cc.(ProbCase)
	n := c.P.Declared()
	models := tt.Models(n, c.P.Ref())
	// the strategy-off twin, default choices
	off := c
	off.CP = false
	var offObs optObs
	choice.Explore(choice.Opts{}, []int{}, func(ctl *choice.Ctl, _ []int) bool {
		offObs = runC14(off, nil)
		return true
	})
	r.Execution()
	entry := c.P.Front + "/" + c.Mode
	if c.AMO {
		entry += "+amo"
	}
	boundSets := map[int]tt.Set{}
	underBound := func(b int) tt.Set {
		if b == noBound || c.P.CostL == nil {
			return models
		}
		if s, ok := boundSets[b]; ok {
			return s
		}
		s := tt.Empty(n)
		models.Each(func(a uint32) {
			if tt.Cost(c.P.CostL, c.P.CostW, a) < b {
				s.Add(a)
			}
		})
		boundSets[b] = s
		return s
	}
	if c.P.Front == "card" || c.P.Front == "pb" {
		if pb, err := safeBuild(c.P); err == nil && pb != nil {
			for _, l := range c.P.CostL {
				if l > pb.NbVars || -l > pb.NbVars {
					r.Count("skipped_cost_variable_unknown_to_front_end", 1)
					return nil
				}
			}
		}
	}
	return exploreProbCfg(r, c.Dev, c.NbMax, c, "cutting-planes", func(choices []int) []core.Failure {
		var evts []learnedEvt
		o := runC14(c, &evts)
		countStats(r, o.stats)
		r.Count("pb_constraints_learned", int64(len(evts)))
		if len(evts) > 0 {
			r.NonTrivial()
		}
		r.Outcome(fmt.Sprintf("%s/%v/learnedpb=%d/confl=%d/restarts=%d/del=%d", c.Mode, o.res.Status, min3(len(evts)), min3(o.stats.NbConflicts), min3(o.stats.NbRestarts), min3(o.stats.NbDeleted)))
		var fs []core.Failure
		add := func(kind, detail string) { fs = append(fs, core.Failure{Sig: entry + "/cp/" + kind, Detail: detail}) }
		if o.panicked != "" {
			// root-cause signature: where the panic was raised and with what message (no front end / mode)
			fs = append(fs, core.Failure{Sig: "cp/panic@" + lastPanicSite + ":" + o.panicked, Detail: o.panicked})
			return fs
		}
		// 1. the learner's events, in order: the first unsound one is the root cause
		// (implication is decided by truth table: for more than 16 variables, or beyond the first 300
		// events of one execution, only verdict, model and optimum are judged)
		checked := evts
		if n > 16 {
			checked = nil
		} else if len(checked) > 300 {
			checked = checked[:300]
		}
		r.Count("pb_learner_events_checked_for_implication", int64(len(checked)))
		for i, e := range checked {
			prem := underBound(e.bound)
			if e.lvl == -1 {
				if !prem.IsEmpty() {
					fs = append(fs, core.Failure{Sig: "cp/learner-derived-contradiction-on-satisfiable-premises", Detail: fmt.Sprintf("event %d: cutting planes derived a contradiction although the premises (cost bound %d) have a model", i, e.bound)})
					return fs
				}
				continue
			}
			if e.lvl == 1 {
				for _, u := range e.units {
					if !tt.Implied(prem, tt.Clause(u)) {
						add("learned-unit-not-implied", fmt.Sprintf("event %d: unit %d is not a consequence of the problem (cost bound %d)", i, u, e.bound))
						return fs
					}
				}
				continue
			}
			if e.c != nil && !tt.Implied(prem, *e.c) {
				add("learned-constraint-not-implied", fmt.Sprintf("event %d: %v is not a consequence of the problem (cost bound %d)", i, *e.c, e.bound))
				return fs
			}
		}
		// 2. verdict, model, optimum against the truth table
		fs = judgeOptim(entry+"/cp", c, o, models)
		if len(fs) > 0 {
			return fs
		}
		// differential with the strategy off
		if offObs.panicked == "" && !offObs.aborted && offObs.buildPanic == "" {
			if offObs.res.Status != o.res.Status {
				add("verdict-differs-from-strategy-off", fmt.Sprintf("off: %v, on: %v", offObs.res.Status, o.res.Status))
			} else if o.res.Status == solver.Sat && offObs.res.Weight != o.res.Weight {
				add("optimum-differs-from-strategy-off", fmt.Sprintf("off: %d, on: %d", offObs.res.Weight, o.res.Weight))
			}
		}
		return fs
	})
}

// runC14 runs solve/optimise with the case's strategy flags, recording learner events.
func runC14(c ProbCase, evts *[]learnedEvt) (o optObs) {
	var pb *solver.Problem
	if pn, v := core.Safely(func() { pb, o.buildErr = c.P.Build() }); pn {
		o.buildPanic = v
		return
	}
	if o.buildErr != nil {
		return
	}
	o.parseStat = pb.Status
	o.nbVars = pb.NbVars
	ch := make(chan solver.Result, 4096)
	bound := noBound
	drain := func() bool {
		for {
			select {
			case x, ok := <-ch:
				if !ok {
					return true
				}
				o.stream = append(o.stream, x)
				if x.Status == solver.Sat {
					bound = x.Weight
				}
			default:
				return false
			}
		}
	}
	o.panicked, o.aborted = guard(func() {
		if c.AMO {
			pb.DetectAtMostOne()
		}
		s := solver.New(pb)
		s.CuttingPlanes = c.CP
		if evts != nil {
			if ctl, ok := solverCtl(); ok {
				ctl.OnLearnedPB = func(_ *solver.Solver, cl *solver.Clause, units []solver.Lit, lvl int) {
					if len(*evts) >= 5000 { // termination oracle for the conflict loop, which has no choice point
						panic(solver.VerifAbort{Reason: "more than 5000 cutting-planes conflicts in one execution"})
					}
					drain()
					e := learnedEvt{lvl: lvl, units: litsToInts(units), bound: bound}
					if cl != nil {
						k := clauseToTT(cl)
						e.c = &k
					}
					*evts = append(*evts, e)
				}
			}
		}
		if c.Mode == "solve" {
			st := s.Solve()
			o.res.Status = st
			if st == solver.Sat {
				o.res.Model = s.Model()
			}
		} else {
			o.hasChan = true
			o.res = s.Optimal(ch, nil)
			o.closed = drain()
		}
		o.stats = s.Stats
	})
	return
}

var currentCtl *choice.Ctl

func solverCtl() (*choice.Ctl, bool) { return currentCtl, currentCtl != nil }

func init() { core.Register(c14{}) }
