package scen

import (
	"encoding/json"
	"fmt"

	"github.com/crillab/gophersat/solver"

	"verifmc/internal/core"
	"verifmc/internal/tt"
)

// C15 — at-most-one detection preserves the set of models.

type c15 struct{}

func (c15) ID() string    { return "C15" }
func (c15) Level() string { return "exploration" }
func (c15) Rule() string {
	return "cases = problems rich in binary clauses: every graph on <=5 vertices as binary clauses over negative literals (every edge set; for <=3 edges every clause order and every repeated edge), each alone and combined with every set of <=2 extra clauses; every graph on 6 vertices alone and with one extra clause (positive clause over all vertices, mixed-sign binaries, ternary clauses); every sign pattern of the 3- and 4-cliques; all S4 multisets of <=3 clauses; PB/cardinality problems containing two-literal constraints. Oracle: the clauses of the Problem after DetectAtMostOne, read structurally (Units, Clauses[i].Get/Weight/Cardinality), have exactly the input's model set over the same variables; CountModels and Solve verdict agree as well. Non-trivial = the detection changed the clause list."
}
func (c15) Assumptions() []string {
	return []string{"truth-table reference is correct", "the structural reading of a Problem (exported accessors) is what the solver is later given"}
}
func (c15) Decode(raw json.RawMessage) (core.Case, error) {
	var c ProbCase
	err := json.Unmarshal(raw, &c)
	return c, err
}

func permutations(n int, yield func(p []int) bool) bool {
	p := make([]int, n)
	for i := range p {
		p[i] = i
	}
	var rec func(k int) bool
	rec = func(k int) bool {
		if k == n {
			return yield(p)
		}
		for i := k; i < n; i++ {
			p[k], p[i] = p[i], p[k]
			if !rec(k + 1) {
				return false
			}
			p[k], p[i] = p[i], p[k]
		}
		return true
	}
	return rec(0)
}

func (c15) Enumerate(tier string, seed int64, yield func(string, core.Case) bool) {
	thorough := tier == "thorough"
	emit := func(fam string, f [][]int, n int) bool {
		return yield(fam, ProbCase{P: cnfProb("slicenb", f, n, n), Mode: "amo"})
	}
	nv := 5
	var edges [][2]int
	for a := 1; a <= nv; a++ {
		for b := a + 1; b <= nv; b++ {
			edges = append(edges, [2]int{a, b})
		}
	}
	extras := func(n int) [][]int {
		var all []int
		for v := 1; v <= n; v++ {
			all = append(all, v)
		}
		ex := [][]int{all, {1, -2}, {-1, 2}, {1, 2}, {-1, 2, 3}, {1, -2, -3}, {-1, -2, -3}}
		if n >= 4 {
			ex = append(ex, []int{-3, 4}, []int{-1, -2, 4})
		}
		return ex
	}
	{ // every graph on 6 vertices (32768 edge sets), plain and with one extra clause
		var e6 [][2]int
		for a := 1; a <= 6; a++ {
			for b := a + 1; b <= 6; b++ {
				e6 = append(e6, [2]int{a, b})
			}
		}
		ex6 := [][]int{{1, 2, 3, 4, 5, 6}, {1, -2}, {-1, 2, 3}, {-5, 6}}
		for mask := 0; mask < 1<<uint(len(e6)); mask++ {
			var f [][]int
			for i, e := range e6 {
				if mask>>uint(i)&1 == 1 {
					f = append(f, []int{-e[0], -e[1]})
				}
			}
			if !emit("graph6", f, 6) {
				return
			}
			for _, x := range ex6 {
				if !emit("graph6+1", append(copyCNF(f), x), 6) {
					return
				}
			}
		}
	}
	for mask := 0; mask < 1<<uint(len(edges)); mask++ {
		var f [][]int
		used := 0
		for i, e := range edges {
			if mask>>uint(i)&1 == 1 {
				f = append(f, []int{-e[0], -e[1]})
				if e[1] > used {
					used = e[1]
				}
			}
		}
		if used == 0 {
			used = 1
		}
		if !emit("graph", f, nv) {
			return
		}
		// reversed literal order inside each clause
		g := copyCNF(f)
		for _, c := range g {
			c[0], c[1] = c[1], c[0]
		}
		if len(f) > 0 && !emit("graph-swapped", g, nv) {
			return
		}
		ex := extras(nv)
		for i := range ex {
			if !emit("graph+1", append(copyCNF(f), ex[i]), nv) || !emit("graph+1", append([][]int{ex[i]}, copyCNF(f)...), nv) {
				return
			}
			if thorough || mask%4 == 3 {
				for j := i + 1; j < len(ex); j++ {
					if !emit("graph+2", append(copyCNF(f), ex[i], ex[j]), nv) {
						return
					}
				}
			}
		}
		// every clause order and one repeated edge for small edge sets
		if len(f) >= 2 && len(f) <= 3 || (thorough && len(f) == 4) {
			ok := permutations(len(f), func(p []int) bool {
				g := make([][]int, len(f))
				for i, k := range p {
					g[i] = append([]int{}, f[k]...)
				}
				if !emit("graph-perm", g, nv) {
					return false
				}
				for k := range f {
					if !emit("graph-repeat", append(copyCNF(g), append([]int{}, f[k]...)), nv) {
						return false
					}
				}
				return true
			})
			if !ok {
				return
			}
		}
	}
	// cliques in every sign pattern (at-most-one over mixed literals), with one clause over the negations
	for k := 3; k <= 4; k++ {
		for signs := 0; signs < 1<<uint(k); signs++ {
			lit := func(i int) int {
				if signs>>uint(i)&1 == 1 {
					return i + 1
				}
				return -(i + 1)
			}
			var f [][]int
			var neg []int
			for a := 0; a < k; a++ {
				neg = append(neg, -lit(a))
				for b := a + 1; b < k; b++ {
					f = append(f, []int{lit(a), lit(b)})
				}
			}
			if !emit("clique-signs", f, k) || !emit("clique-signs", append(copyCNF(f), neg), k) {
				return
			}
		}
	}
	s4 := 3
	if thorough {
		s4 = 4
	}
	if !famS4(1, s4, func(f [][]int, n int) bool { return emit("S4", f, n) }) {
		return
	}
	// PB / cardinality problems containing two-literal constraints
	enumConstraintSets(tier, func(fam string, p Prob) bool {
		switch fam {
		case "card2":
			return yield("card2", ProbCase{P: p, Mode: "amo"})
		case "pb2":
			if !thorough && (len(p.Cs[0].L) != 2 || len(p.Cs[1].L) != 2) {
				return true
			}
			return yield("pb2", ProbCase{P: p, Mode: "amo"})
		}
		return true
	})
	// three binary PB/card constraints forming a triangle, every degree
	for k1 := 1; k1 <= 2; k1++ {
		for k2 := 1; k2 <= 2; k2++ {
			for k3 := 1; k3 <= 2; k3++ {
				for signs := 0; signs < 8; signs++ {
					l := func(v int) int {
						if signs>>uint(v-1)&1 == 1 {
							return v
						}
						return -v
					}
					cs := []Con{{T: "atl", L: []int{l(1), l(2)}, K: k1}, {T: "atl", L: []int{l(1), l(3)}, K: k2}, {T: "atl", L: []int{l(2), l(3)}, K: k3}}
					if !yield("pbtriangle", ProbCase{P: Prob{Front: "pb", N: 3, Cs: cpCons(cs...)}, Mode: "amo"}) {
						return
					}
					cc := []Con{{T: "card", L: []int{l(1), l(2)}, K: k1}, {T: "card", L: []int{l(1), l(3)}, K: k2}, {T: "card", L: []int{l(2), l(3)}, K: k3}, {T: "card", L: []int{1, 2, 3}, K: 1}}
					if !yield("cardtriangle", ProbCase{P: Prob{Front: "card", N: 3, Cs: cpCons(cc...)}, Mode: "amo"}) {
						return
					}
				}
			}
		}
	}
}

func (c15) Exec(cc core.Case, r *core.Rec) []core.Failure {
	c := cc.(ProbCase)
	r.Execution()
	front := c.P.Front
	var fs []core.Failure
	add := func(kind, detail string) { fs = append(fs, core.Failure{Sig: front + "/" + kind, Detail: detail}) }
	pb, err := safeBuild(c.P)
	if err != nil || pb == nil {
		return nil // construction failures belong to C02/C13
	}
	n := c.P.Declared()
	want := tt.Models(n, c.P.Ref())
	before, err := evalStructural(pb, n)
	if err != nil || !before.Equal(want) {
		// parse-time simplification already wrong or variables dropped: not this property
		r.Count("skipped_parse_result_not_equivalent", 1)
		return nil
	}
	nbClausesBefore := len(pb.Clauses)
	sigBefore := fmt.Sprint(len(pb.Clauses))
	if pn, v := core.Safely(func() { pb.DetectAtMostOne() }); pn {
		add("panic", v)
		return fs
	}
	after, err := evalStructural(pb, n)
	if err != nil {
		add("malformed-problem", err.Error())
		return fs
	}
	changed := len(pb.Clauses) != nbClausesBefore
	for _, cl := range pb.Clauses {
		if cl.Cardinality() > 1 && c.P.Front != "card" && c.P.Front != "pb" {
			changed = true
		}
	}
	if changed {
		r.NonTrivial()
		r.Count("problems_rewritten", 1)
	}
	r.Outcome(fmt.Sprintf("changed=%v/models=%d/%s", changed, min3(want.Count()), sigBefore[:1]))
	if !after.Equal(want) {
		lost := want.Count() - after.And(want).Count()
		gained := after.Count() - after.And(want).Count()
		add("model-set-changed", fmt.Sprintf("%d models lost, %d gained (input has %d models over %d variables)", lost, gained, want.Count(), n))
		return fs
	}
	// consequences: verdict and count on the rewritten problem
	var st solver.Status
	var cnt int
	pn, ab := guard(func() {
		s := solver.New(pb)
		cnt = s.CountModels()
	})
	r.Execution()
	if pn != "" {
		add("count-panic-after-detection", pn)
		return fs
	}
	if ab {
		add("nontermination-after-detection", "step budget exceeded")
		return fs
	}
	_ = st
	if pb.NbVars < n { // variables dropped by the front end are unconstrained (checked structurally above)
		cnt <<= uint(n - pb.NbVars)
	}
	if cnt != want.Count() {
		add("count-changed", fmt.Sprintf("CountModels on the rewritten problem returned %d, the input has %d models", cnt, want.Count()))
	}
	r.Sample("amo", 3, c)
	return fs
}

func init() { core.Register(c15{}) }
