package scen

import (
	"encoding/json"
	"fmt"
	"strings"

	"github.com/crillab/gophersat/bf"

	"verifmc/internal/core"
)

// C17 — the formula text syntax is parsed with the documented precedence.

type TextCase struct {
	Toks  []string `json:"toks"`
	Style int      `json:"style"` // 0 no spaces, 1 single spaces, 2 newline+tab
	// long texts are described, not stored: Gen names the shape, Op the operator, K the number of operands / the depth
	Gen string `json:"gen,omitempty"`
	Op  string `json:"op,omitempty"`
	K   int    `json:"k,omitempty"`
}

// longToks builds the token list of a long text: operands cycle over a, b, c (every third one negated).
func longToks(gen, op string, k int) []string {
	operand := func(i int) []string {
		x := []string{string(rune('a' + i%3))}
		if i%3 == 2 && i%2 == 0 {
			x = []string{"^", x[0]}
		}
		return x
	}
	var t []string
	switch gen {
	case "chain": // x0 op x1 op ... op x(k-1), flat
		for i := 0; i < k; i++ {
			if i > 0 {
				t = append(t, op)
			}
			t = append(t, operand(i)...)
		}
	case "chain-in-parens": // ( flat chain ) & a
		t = append(t, "(")
		t = append(t, longToks("chain", op, k)...)
		t = append(t, ")", "&", "a")
	case "right-nest": // x0 op ( x1 op ( x2 ... ) )
		for i := 0; i < k-1; i++ {
			t = append(t, operand(i)...)
			t = append(t, op, "(")
		}
		t = append(t, operand(k-1)...)
		for i := 0; i < k-1; i++ {
			t = append(t, ")")
		}
	case "left-nest": // ( ( x0 op x1 ) op x2 ) ...
		for i := 0; i < k-1; i++ {
			t = append(t, "(")
		}
		t = append(t, operand(0)...)
		for i := 1; i < k; i++ {
			t = append(t, op)
			t = append(t, operand(i)...)
			t = append(t, ")")
		}
	case "parens": // k pairs of parentheses around a op b
		for i := 0; i < k; i++ {
			t = append(t, "(")
		}
		t = append(t, "a", op, "b")
		for i := 0; i < k; i++ {
			t = append(t, ")")
		}
	case "nots": // k negations
		for i := 0; i < k; i++ {
			t = append(t, "^")
		}
		t = append(t, "a", op, "b")
	case "unbalanced": // one closing parenthesis missing at the very end of a deep nest
		t = longToks("parens", op, k)
		t = t[:len(t)-1]
	}
	return t
}

func (c TextCase) Text() string {
	isIdent := isIdentTok
	var sb strings.Builder
	for i, t := range c.Toks {
		if i > 0 {
			switch c.Style {
			case 0:
				if isIdent(t) && isIdent(c.Toks[i-1]) {
					sb.WriteByte(' ')
				}
			case 1:
				sb.WriteByte(' ')
			default:
				sb.WriteString("\n\t")
			}
		}
		sb.WriteString(t)
	}
	return sb.String()
}

// ---------------------------------------------------------------------------
// reference recogniser of the documented grammar (bf/doc.go), right-nested repetition:
//
//	formula ::= clause { ';' clause }*      clause ::= implies { '=' implies }*
//	implies ::= or { '->' or }*             or     ::= and { '|' and }*
//	and     ::= not { '&' not }*            not    ::= '^' not | atom
//	atom    ::= ident | '(' formula ')' | '{' ident { ',' ident }* '}'

type refParser struct {
	toks []string
	pos  int
}

func (p *refParser) peek() string {
	if p.pos < len(p.toks) {
		return p.toks[p.pos]
	}
	return ""
}

// isIdentTok: an identifier is a letter or underscore followed by letters, digits, underscores.
func isIdentTok(t string) bool {
	for i, c := range t {
		letter := c == '_' || (c >= 'a' && c <= 'z') || (c >= 'A' && c <= 'Z')
		if !letter && (i == 0 || c < '0' || c > '9') {
			return false
		}
	}
	return len(t) > 0
}

var refLevels = []struct{ tok, op string }{{";", "and"}, {"=", "eq"}, {"->", "implies"}, {"|", "or"}, {"&", "and"}}

func (p *refParser) level(l int) (*BF, bool) {
	if l == len(refLevels) {
		return p.not()
	}
	left, ok := p.level(l + 1)
	if !ok {
		return nil, false
	}
	if p.peek() == refLevels[l].tok {
		p.pos++
		right, ok := p.level(l) // right-nested repetition
		if !ok {
			return nil, false
		}
		return bfN(refLevels[l].op, left, right), true
	}
	return left, true
}

func (p *refParser) not() (*BF, bool) {
	if p.peek() == "^" {
		p.pos++
		k, ok := p.not()
		if !ok {
			return nil, false
		}
		return bfN("not", k), true
	}
	return p.atom()
}

func (p *refParser) atom() (*BF, bool) {
	t := p.peek()
	switch {
	case isIdentTok(t):
		p.pos++
		return bfVar(t), true
	case t == "(":
		p.pos++
		f, ok := p.level(0)
		if !ok || p.peek() != ")" {
			return nil, false
		}
		p.pos++
		return f, true
	case t == "{":
		p.pos++
		var names []string
		for {
			if !isIdentTok(p.peek()) {
				return nil, false
			}
			names = append(names, p.peek())
			p.pos++
			if p.peek() == "," {
				p.pos++
				continue
			}
			if p.peek() == "}" {
				p.pos++
				return bfUnique(names...), true
			}
			return nil, false
		}
	}
	return nil, false
}

// refParse returns the reference reading of a token list, ok=false if it is not in the language.
func refParse(toks []string) (*BF, bool) {
	p := &refParser{toks: toks}
	f, ok := p.level(0)
	if !ok || p.pos != len(toks) {
		return nil, false
	}
	return f, true
}

// ---------------------------------------------------------------------------
// syntax trees and their renderings

// ST is a syntax tree: Op "" = leaf (Toks), "^" unary, otherwise a binary operator token.
type ST struct {
	Op   string
	Leaf []string
	L, R *ST
}

func prec(op string) int {
	for i, l := range refLevels {
		if l.tok == op {
			return i
		}
	}
	if op == "^" {
		return 5
	}
	return 6
}

// render returns the token list of t; wrap[i] says whether node number i (preorder) gets a
// redundant pair of parentheses. Required parentheses are always produced.
func (t *ST) render(wrap map[int]bool) []string {
	n := 0
	var rec func(t *ST, parentPrec int, isLeft bool, parentOp string) []string
	rec = func(t *ST, parentPrec int, isLeft bool, parentOp string) []string {
		id := n
		n++
		var out []string
		need := false
		switch {
		case t.Op == "":
			out = append(out, t.Leaf...)
		case t.Op == "^":
			out = append([]string{"^"}, rec(t.L, 5, false, "^")...)
			need = false // '^' binds tighter than every binary operator; under '^' it nests directly
		default:
			p := prec(t.Op)
			out = append(out, rec(t.L, p, true, t.Op)...)
			out = append(out, t.Op)
			out = append(out, rec(t.R, p, false, t.Op)...)
			if p < parentPrec || (p == parentPrec && isLeft) {
				need = true
			}
		}
		if need || wrap[id] {
			out = append(append([]string{"("}, out...), ")")
		}
		return out
	}
	return rec(t, -1, false, "")
}

func (t *ST) size() int {
	if t == nil {
		return 0
	}
	return 1 + t.L.size() + t.R.size()
}

// enumTrees builds all binary trees with k leaves (leaf i = leaves[i]), every operator assignment.
func enumTrees(leaves [][]string, ops []string) []*ST {
	if len(leaves) == 1 {
		return []*ST{{Leaf: leaves[0]}}
	}
	var out []*ST
	for split := 1; split < len(leaves); split++ {
		ls := enumTrees(leaves[:split], ops)
		rs := enumTrees(leaves[split:], ops)
		for _, op := range ops {
			for _, l := range ls {
				for _, r := range rs {
					out = append(out, &ST{Op: op, L: l, R: r})
				}
			}
		}
	}
	return out
}

func cloneST(t *ST) *ST {
	if t == nil {
		return nil
	}
	return &ST{Op: t.Op, Leaf: t.Leaf, L: cloneST(t.L), R: cloneST(t.R)}
}

// negateAt returns a copy of t with a '^' inserted above node number idx (preorder).
func negateAt(t *ST, idx int) *ST {
	n := 0
	var rec func(t *ST) *ST
	rec = func(t *ST) *ST {
		if t == nil {
			return nil
		}
		id := n
		n++
		c := &ST{Op: t.Op, Leaf: t.Leaf}
		c.L = rec(t.L)
		c.R = rec(t.R)
		if id == idx {
			return &ST{Op: "^", L: c}
		}
		return c
	}
	return rec(t)
}

type c17 struct{}

func (c17) ID() string    { return "C17" }
func (c17) Level() string { return "exploration" }
func (c17) Rule() string {
	return "cases = (1) every syntax tree with <=4 leaves (leaves a,b,c,a in order, brace groups of 1..3 names, or identifiers with a leading underscore, digits, upper case) over the binary operators ; = -> | & with at most one negation inserted at any node (two for <=3 leaves), rendered with the required parentheses plus every set of <=2 redundant parenthesis pairs (every set for <=3 leaves) in three spacing styles (none, single space, newline+tab); (2) every token string of length <=6 (8 thorough) over {a,b,^,&,|,->,=,;,(,)}; (3) corruptions of the renderings of (1): delete any one token, insert '(' or ')' or an identifier or ';' at any position. Each text is judged by a reference recogniser of the grammar documented in bf/doc.go with the documented priorities and right-nested repetition: in the language => Parse succeeds and the formula's truth table (Formula.Eval) equals that of the reference reading; not in the language => error and nil formula; never a panic. A single trailing ';' is tolerated either way (the statement does not forbid it). (4) long texts: for every operator and k in {64, 1100, 4100} (thorough: up to 20000) a flat chain of k operands, the same chain inside parentheses, the explicit right nest and left nest of k operands, k redundant parenthesis pairs, k negations, and a k-deep nest with its last ')' missing, in the three spacing styles. Non-trivial = the text has at least two operators."
}
func (c17) Assumptions() []string {
	return []string{"the reference recogniser implements the grammar of bf/doc.go extended with brace groups as described in the Parse documentation", "identifiers are single lower-case letters; brace groups have at most 3 names (no auxiliary variables, so Formula.Eval is defined)"}
}
func (c17) Decode(raw json.RawMessage) (core.Case, error) {
	var c TextCase
	err := json.Unmarshal(raw, &c)
	return c, err
}

func (c17) Enumerate(tier string, seed int64, yield func(string, core.Case) bool) {
	thorough := tier == "thorough"
	ops := []string{";", "=", "->", "|", "&"}
	emit := func(fam string, toks []string) bool {
		for st := 0; st < 3; st++ {
			if !yield(fam, TextCase{Toks: append([]string{}, toks...), Style: st}) {
				return false
			}
		}
		return true
	}
	leafSets := [][][]string{
		{{"a"}, {"b"}, {"c"}, {"a"}},
		{{"{", "a", "}"}, {"b"}, {"{", "a", ",", "b", "}"}, {"{", "a", ",", "b", ",", "c", "}"}},
		{{"_x"}, {"x1"}, {"{", "a_b", ",", "_", "}"}, {"Y"}}, // identifier shapes: leading underscore, digits, upper case
	}
	var corpus [][]string // renderings kept for the corruption family
	for li, leaves := range leafSets {
		for k := 1; k <= 4; k++ {
			if li >= 1 && k == 4 && !thorough {
				continue
			}
			for _, base := range enumTrees(leaves[:k], ops) {
				var variants []*ST
				variants = append(variants, base)
				sz := base.size()
				for i := 0; i < sz; i++ {
					v := negateAt(base, i)
					variants = append(variants, v)
					if k <= 3 && li == 0 {
						for j := 0; j < v.size(); j++ {
							variants = append(variants, negateAt(v, j))
						}
					}
				}
				for vi, t := range variants {
					n := t.size()
					// redundant parentheses: all subsets for small trees, subsets of size <=2 otherwise
					if k <= 3 && n <= 6 {
						for mask := 0; mask < 1<<uint(n); mask++ {
							w := map[int]bool{}
							for i := 0; i < n; i++ {
								if mask>>uint(i)&1 == 1 {
									w[i] = true
								}
							}
							toks := t.render(w)
							if mask == 0 && vi < 2 {
								corpus = append(corpus, toks)
							}
							if !emit("tree", toks) {
								return
							}
						}
					} else {
						toks := t.render(nil)
						if vi == 0 && k == 4 && len(corpus) < 4000 {
							corpus = append(corpus, toks)
						}
						if !emit("tree", toks) {
							return
						}
						for i := 0; i < n; i++ {
							if !emit("tree", t.render(map[int]bool{i: true})) {
								return
							}
							if vi == 0 || thorough {
								for j := i + 1; j < n; j++ {
									if !emit("tree", t.render(map[int]bool{i: true, j: true})) {
										return
									}
								}
							}
						}
					}
				}
			}
		}
	}
	// (2) token strings
	alpha := []string{"a", "b", "^", "&", "|", "->", "=", ";", "(", ")"}
	maxLen := 6
	if thorough {
		maxLen = 8
	}
	for m := 0; m <= maxLen; m++ {
		ok := sequences(len(alpha), m, func(idx []int) bool {
			toks := make([]string, m)
			for i, x := range idx {
				toks[i] = alpha[x]
			}
			st := 1
			if m == maxLen {
				st = 0 // the longest strings in the compact style only
			}
			if m < maxLen {
				if !yield("strings", TextCase{Toks: toks, Style: 0}) {
					return false
				}
			}
			return yield("strings", TextCase{Toks: append([]string{}, toks...), Style: st})
		})
		if !ok {
			return
		}
	}
	// (4) long texts: flat chains of one operator, explicit right and left nests, deep parentheses, runs of negations
	longK := []int{64, 1100, 4100}
	if thorough {
		longK = []int{64, 300, 1100, 4100, 20000}
	}
	for _, k := range longK {
		for _, op := range ops {
			for _, gen := range []string{"chain", "chain-in-parens", "right-nest", "left-nest", "parens", "nots", "unbalanced"} {
				kk := k
				if op == "=" && gen != "parens" && gen != "nots" && gen != "unbalanced" {
					// bf.Eq(f, g) holds f and g twice, so evaluating a nest of k equivalences (Formula.Eval, the
					// oracle's only access to the parsed formula) takes 2^k steps: one moderate depth only
					if k != longK[0] {
						continue
					}
					kk = 14
				}
				for st := 0; st < 3; st++ {
					if !yield("long/"+gen, TextCase{Gen: gen, Op: op, K: kk, Style: st}) {
						return
					}
				}
			}
		}
	}
	// (3) corruptions
	ins := []string{"(", ")", "a", ";", "^", "}", "{", ","}
	for _, toks := range corpus {
		for i := range toks {
			del := append(append([]string{}, toks[:i]...), toks[i+1:]...)
			if !yield("corrupt", TextCase{Toks: del, Style: 1}) {
				return
			}
		}
		for i := 0; i <= len(toks); i++ {
			for _, x := range ins {
				mod := append(append(append([]string{}, toks[:i]...), x), toks[i:]...)
				if !yield("corrupt", TextCase{Toks: mod, Style: 1}) {
					return
				}
			}
		}
	}
}

func evalParsed(f bf.Formula, names []string) (table []bool, panicked string) {
	n := len(names)
	table = make([]bool, 1<<uint(n))
	m := map[string]bool{}
	p, v := core.Safely(func() {
		for a := 0; a < 1<<uint(n); a++ {
			for i, x := range names {
				m[x] = a>>uint(i)&1 == 1
			}
			table[a] = f.Eval(m)
		}
	})
	if p {
		panicked = v
	}
	return
}

func (c17) Exec(cc core.Case, r *core.Rec) []core.Failure {
	c := cc.(TextCase)
	r.Execution()
	if c.Gen != "" {
		c.Toks = longToks(c.Gen, c.Op, c.K)
		r.Count("long_texts", 1)
	}
	text := c.Text()
	var fs []core.Failure
	add := func(kind, detail string) {
		if c.Gen != "" {
			kind += "/long-" + c.Gen
			if len(detail) > 600 {
				detail = detail[:300] + " ... " + detail[len(detail)-200:]
			}
			detail = fmt.Sprintf("text shape %s, operator %q, k=%d, spacing style %d: %s", c.Gen, c.Op, c.K, c.Style, detail)
		}
		fs = append(fs, core.Failure{Sig: "bf.Parse/" + kind, Detail: detail})
	}
	ref, inLang := refParse(c.Toks)
	trailing := false
	if !inLang && len(c.Toks) >= 2 && c.Toks[len(c.Toks)-1] == ";" {
		if r2, ok := refParse(c.Toks[:len(c.Toks)-1]); ok {
			ref, trailing = r2, true
		}
	}
	nops := 0
	for _, t := range c.Toks {
		if !isIdentTok(t) && t != "(" && t != ")" && t != "{" && t != "}" && t != "," {
			nops++
		}
	}
	if nops >= 2 {
		r.NonTrivial()
	}
	var f bf.Formula
	var err error
	pn, _ := guard(func() { f, err = bf.Parse(strings.NewReader(text)) })
	if pn != "" {
		add("panic@"+lastPanicSite, fmt.Sprintf("%q: %s", text, pn))
		return fs
	}
	r.Outcome(fmt.Sprintf("inlang=%v/trailing=%v/err=%v", inLang, trailing, err != nil))
	if trailing {
		if err != nil {
			return nil // tolerated either way
		}
		inLang = true
	}
	if !inLang {
		if err == nil {
			add("accepted-text-outside-the-grammar", fmt.Sprintf("%q is not in the documented language but Parse returned %v", text, f))
		} else if f != nil {
			add("formula-returned-with-error", fmt.Sprintf("%q: error %v together with formula %v", text, err, f))
		}
		return fs
	}
	if err != nil {
		add("rejected-text-of-the-grammar", fmt.Sprintf("%q is in the documented language (reading %s) but Parse failed: %v", text, ref, err))
		return fs
	}
	if f == nil {
		add("nil-formula-without-error", fmt.Sprintf("%q", text))
		return fs
	}
	names := ref.VarNames()
	got, pan := evalParsed(f, names)
	if pan != "" {
		add("eval-panic", fmt.Sprintf("%q: parsed formula %v cannot be evaluated over %v: %s", text, f, names, pan))
		return fs
	}
	want := ref.Table(names)
	for a := range want {
		if want[a] != got[a] {
			add("wrong-reading", fmt.Sprintf("%q parsed as %v, the documented priorities give %s (they differ on assignment #%d of %v)", text, f, ref, a, names))
			return fs
		}
	}
	if c.Gen == "" {
		r.Sample("text", 4, text)
	}
	return fs
}

func init() { core.Register(c17{}) }
