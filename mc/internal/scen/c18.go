package scen

import (
	"encoding/json"
	"fmt"
	"strconv"
	"strings"

	"github.com/crillab/gophersat/explain"
	"github.com/crillab/gophersat/solver"

	"verifmc/internal/core"
	"verifmc/internal/tt"
)

// C18 — printed problems read back as equivalent problems.

type PrintCase struct {
	P      Prob   `json:"p"`
	Via    string `json:"via"` // cnf | pbstring | solver-fresh | solver-solved | solver-appended | explain-cnf | clause-pbstring
	Append *Con   `json:"append,omitempty"`
}

type c18 struct{}

func (c18) ID() string    { return "C18" }
func (c18) Level() string { return "exploration" }
func (c18) Rule() string {
	return "cases = problems after parse-time simplification x printer: CNF problems (T2 incl. dirty clauses and parse-time Unsat, S3 with <=3 clauses, units and simplified-away clauses) through Problem.CNF, Problem.PBString (also printed after a solver built from the Problem has run), explain.Problem.CNF and Solver.PBString (fresh, after a Solve, after an AppendClause); cardinality/PB sets (C02 singles, single+unit, card pairs, decreasing-coefficient family) with and without cost function (every cost function over <=2 variables, weights 0..2, and negative weights through OPB; MO, a seeded catalogue of weighted PB problems with a weighted cost function over 8..12 variables and all one-edit neighbours) through Problem.PBString, Clause.PBString and Solver.PBString. Oracle: the text is accepted by a reference reader of its format (header counts, terminators, min: syntax) and by the repository's parser; the re-parsed problem, read structurally, has the same models over the same variables and the same cost for every model as the printed problem read structurally (for Solver.PBString: as the truth table of what the solver holds). Non-trivial = parse-time simplification changed the problem (units or removed constraints) or a cost function is present."
}
func (c18) Assumptions() []string {
	return []string{"reference readers implement DIMACS CNF and OPB (linear, >= and =, min:) as published", "truth-table reference is correct"}
}
func (c18) Decode(raw json.RawMessage) (core.Case, error) {
	var c PrintCase
	err := json.Unmarshal(raw, &c)
	return c, err
}

func (c18) Enumerate(tier string, seed int64, yield func(string, core.Case) bool) {
	thorough := tier == "thorough"
	cnfVias := []string{"cnf", "pbstring", "explain-cnf", "solver-fresh", "solver-solved", "cnf-after-solve", "pbstring-after-solve"}
	emitCNF := func(fam string, f [][]int, n int) bool {
		for _, front := range []string{"slicenb", "slice"} {
			p := cnfProb(front, f, n, n)
			for _, v := range cnfVias {
				if front == "slice" && v != "cnf" && v != "pbstring" {
					continue
				}
				if !yield(fam, PrintCase{P: p, Via: v}) {
					return false
				}
			}
		}
		return true
	}
	if !famT2(2, -1, func(f [][]int, n int) bool { return emitCNF("T2", f, n) }) {
		return
	}
	s3 := 3
	if !famS3(s3, s3, func(f [][]int, n int) bool { return emitCNF("S3", f, n) }) {
		return
	}
	// appended clauses
	app := []Con{{T: "cl", L: []int{1}}, {T: "cl", L: []int{-1, 2}}, {T: "cl", L: []int{3}}, {T: "card", L: []int{1, 2, 3}, K: 2}, {T: "ge", L: []int{1, -2}, W: []int{2, 1}, K: 2}}
	if !famS3(2, 2, func(f [][]int, n int) bool {
		for i := range app {
			a := app[i]
			if !yield("S3+append", PrintCase{P: cnfProb("slicenb", f, n, n), Via: "solver-appended", Append: &a}) {
				return false
			}
		}
		return true
	}) {
		return
	}
	costs := [][2][]int{{nil, nil}}
	for _, cf := range costFunctions(3, 2, 0, 2, true) {
		costs = append(costs, cf)
	}
	pbVias := []string{"pbstring", "solver-fresh", "solver-solved", "clause-pbstring", "pbstring-after-solve"}
	if !enumConstraintSets(tier, func(fam string, p Prob) bool {
		switch fam {
		case "card1", "card1u", "pb1", "dec", "card2", "pb1u", "wu4":
		default:
			return true
		}
		if fam == "dec" && len(p.Cs) > 2 {
			return true
		}
		cs := costs
		if fam == "card2" || fam == "pb1u" || fam == "dec" || fam == "wu4" {
			cs = costs[:1]
			if thorough {
				cs = costs[:4]
			}
		}
		for _, cf := range cs {
			q := p
			if cf[0] != nil {
				q.CostL, q.CostW = cf[0], cf[1]
			}
			for _, v := range pbVias {
				if (fam == "card2" || fam == "pb1u") && v != "pbstring" && v != "solver-solved" {
					continue
				}
				if !yield(fam, PrintCase{P: q, Via: v}) {
					return false
				}
			}
		}
		return true
	}) {
		return
	}
	// MO: weighted PB problems with a weighted cost function over 8..12 variables (seeded catalogue + neighbours)
	{
		nseeds := 200
		if thorough {
			nseeds = 600
		}
		mi := 0
		if !enumOptCatalogue(seed, nseeds, func(name string, p Prob) bool {
			mi++
			return yield(name, PrintCase{P: p, Via: pbVias[mi%len(pbVias)]})
		}) {
			return
		}
	}
	// negative cost weights reach a Problem through the OPB front end
	pa := pbAlphabet(3, 2, 2, 1, 2, []string{"ge", "eq"}, false)
	for _, a := range pa {
		for _, cf := range costFunctions(3, 2, -2, 2, false) {
			p := Prob{Front: "opb", N: 3, Cs: cpCons(a), CostL: cf[0], CostW: cf[1]}
			if !yield("opb-cost", PrintCase{P: p, Via: "pbstring"}) || !yield("opb-cost", PrintCase{P: p, Via: "solver-fresh"}) {
				return
			}
		}
	}
}

// refReadOPB is a reference reader of the OPB format (linear constraints, >= and =, min:).
func refReadOPB(text string) (cons []tt.Constr, costL, costW []int, hasCost bool, err error) {
	for ln, line := range strings.Split(text, "\n") {
		t := strings.TrimSpace(line)
		if t == "" || strings.HasPrefix(t, "*") {
			continue
		}
		if !strings.HasSuffix(t, ";") {
			return nil, nil, nil, false, fmt.Errorf("line %d %q does not end with ';'", ln+1, line)
		}
		toks := strings.Fields(strings.TrimSuffix(t, ";"))
		isMin := false
		if len(toks) > 0 && toks[0] == "min:" {
			isMin = true
			toks = toks[1:]
		}
		var lits, ws []int
		i := 0
		for i < len(toks) && toks[i] != ">=" && toks[i] != "=" {
			w, e := strconv.Atoi(toks[i])
			if e != nil {
				return nil, nil, nil, false, fmt.Errorf("line %d %q: coefficient expected, found %q", ln+1, line, toks[i])
			}
			i++
			if i >= len(toks) {
				return nil, nil, nil, false, fmt.Errorf("line %d %q: variable expected after coefficient", ln+1, line)
			}
			v := toks[i]
			neg := false
			if strings.HasPrefix(v, "~") {
				neg = true
				v = v[1:]
			}
			if !strings.HasPrefix(v, "x") {
				return nil, nil, nil, false, fmt.Errorf("line %d %q: variable expected, found %q", ln+1, line, toks[i])
			}
			idx, e := strconv.Atoi(v[1:])
			if e != nil || idx < 1 {
				return nil, nil, nil, false, fmt.Errorf("line %d %q: bad variable %q", ln+1, line, toks[i])
			}
			if neg {
				idx = -idx
			}
			lits = append(lits, idx)
			ws = append(ws, w)
			i++
		}
		if isMin {
			if i != len(toks) || hasCost {
				return nil, nil, nil, false, fmt.Errorf("line %d %q: malformed objective", ln+1, line)
			}
			costL, costW, hasCost = lits, ws, true
			continue
		}
		if i+2 != len(toks) {
			return nil, nil, nil, false, fmt.Errorf("line %d %q: relation and degree expected", ln+1, line)
		}
		k, e := strconv.Atoi(toks[i+1])
		if e != nil {
			return nil, nil, nil, false, fmt.Errorf("line %d %q: bad degree", ln+1, line)
		}
		cons = append(cons, tt.Constr{Lits: lits, Coefs: ws, K: k})
		if toks[i] == "=" {
			cons = append(cons, tt.Constr{Lits: lits, Coefs: negW(ws), K: -k})
		}
	}
	return
}

// refReadDIMACS is a reference reader of DIMACS CNF.
func refReadDIMACS(text string) (n int, clauses [][]int, err error) {
	n = -1
	nc := -1
	var cur []int
	for _, ln := range strings.Split(text, "\n") {
		t := strings.TrimSpace(ln)
		if t == "" || strings.HasPrefix(t, "c") {
			continue
		}
		if strings.HasPrefix(t, "p") {
			fl := strings.Fields(t)
			if len(fl) != 4 || fl[0] != "p" || fl[1] != "cnf" || n != -1 {
				return 0, nil, fmt.Errorf("malformed header %q", ln)
			}
			n, _ = strconv.Atoi(fl[2])
			nc, _ = strconv.Atoi(fl[3])
			continue
		}
		if n == -1 {
			return 0, nil, fmt.Errorf("clause before header: %q", ln)
		}
		for _, tok := range strings.Fields(t) {
			v, e := strconv.Atoi(tok)
			if e != nil {
				return 0, nil, fmt.Errorf("malformed clause %q", ln)
			}
			if v == 0 {
				clauses = append(clauses, cur)
				cur = nil
				continue
			}
			if v > n || -v > n {
				return 0, nil, fmt.Errorf("literal %d out of range (%d variables)", v, n)
			}
			cur = append(cur, v)
		}
	}
	if cur != nil {
		return 0, nil, fmt.Errorf("last clause not terminated")
	}
	if n == -1 {
		return 0, nil, fmt.Errorf("no header")
	}
	if nc != len(clauses) {
		return 0, nil, fmt.Errorf("header announces %d clauses, %d present", nc, len(clauses))
	}
	return
}

func (c18) Exec(cc core.Case, r *core.Rec) []core.Failure {
	c := cc.(PrintCase)
	r.Execution()
	var fs []core.Failure
	add := func(kind, detail string) { fs = append(fs, core.Failure{Sig: c.Via + "/" + kind, Detail: detail}) }
	pb, err := safeBuild(c.P)
	if err != nil || pb == nil {
		return nil // construction failures belong to C02/C13
	}
	for _, l := range c.P.CostL {
		if l > pb.NbVars || -l > pb.NbVars {
			r.Count("skipped_cost_variable_unknown_to_front_end", 1)
			return nil
		}
	}
	n := c.P.Declared()
	if pb.NbVars > n {
		n = pb.NbVars
	}
	// what is printed, read structurally
	orig, e := evalStructural(pb, n)
	if e != nil {
		return nil
	}
	costLits, costWs := solver.VerifCostFunc(pb)
	oCostL := litsToInts(costLits)
	if len(pb.Units) > 0 || len(pb.Clauses) != len(c.P.Cs) || costLits != nil {
		r.NonTrivial()
	}
	r.Outcome(fmt.Sprintf("%s/status=%v/cost=%v", c.Via, pb.Status, costLits != nil))
	var text string
	isOPB := true
	want := orig
	pn, ab := guard(func() {
		switch c.Via {
		case "cnf":
			isOPB = false
			text = pb.CNF()
		case "pbstring":
			text = pb.PBString()
		case "cnf-after-solve": // the Problem is printed after a solver built from it has run
			isOPB = false
			solver.New(pb).Solve()
			text = pb.CNF()
		case "pbstring-after-solve":
			solver.New(pb).Solve()
			text = pb.PBString()
		case "clause-pbstring":
			var sb strings.Builder
			for _, cl := range pb.Clauses {
				sb.WriteString(cl.PBString() + "\n")
			}
			text = sb.String()
			// units are not clauses: the reference is the clause list alone
			saveU, saveS := pb.Units, pb.Status
			pb.Units = nil
			if saveS != solver.Unsat {
				want, _ = evalStructural(pb, n)
			}
			pb.Units, pb.Status = saveU, saveS
			costLits = nil
		case "solver-fresh":
			text = solver.New(pb).PBString()
		case "solver-solved":
			s := solver.New(pb)
			s.Solve()
			text = s.PBString()
		case "solver-appended":
			s := solver.New(pb)
			s.Solve()
			s.AppendClause(mkClause(*c.Append))
			k := c.Append.ref()
			if mv := tt.MaxVar(k); mv > n {
				n = mv
				orig, _ = evalStructural(pb, n)
			}
			want = orig.And(tt.Models(n, k))
			text = s.PBString()
		case "explain-cnf":
			isOPB = false
			epb, err := explain.ParseCNF(strings.NewReader(dimacs(c.P.cnf(), c.P.Decl)))
			if err != nil {
				text = "ERROR " + err.Error()
				return
			}
			text = epb.CNF()
			want = tt.Models(n, c.P.Ref())
		}
	})
	if pn != "" {
		add("print-panic@"+lastPanicSite, pn)
		return fs
	}
	if ab {
		return nil
	}
	if c.Via == "clause-pbstring" && pb.Status == solver.Unsat {
		return nil
	}
	if !isOPB {
		rn, cls, e := refReadDIMACS(text)
		if e != nil {
			add("malformed-dimacs", fmt.Sprintf("%v\n%s", e, text))
			return fs
		}
		if rn != pb.NbVars && (c.Via == "cnf" || c.Via == "cnf-after-solve") {
			add("variable-count", fmt.Sprintf("header declares %d variables, the problem has %d\n%s", rn, pb.NbVars, text))
			return fs
		}
		if rn > n {
			add("variable-count", fmt.Sprintf("header declares %d variables, the problem has %d\n%s", rn, n, text))
			return fs
		}
		if got := tt.Models(n, clausesToTT(cls)); !got.Equal(want) {
			add("text-has-different-models", fmt.Sprintf("the printed problem has %d models over %d variables, the text %d\n%s", want.Count(), n, got.Count(), text))
			return fs
		}
		// repository parser
		var back tt.Set
		var perr error
		pn, _ := guard(func() {
			if c.Via == "cnf" || c.Via == "cnf-after-solve" {
				pb2, err := solver.ParseCNF(strings.NewReader(text))
				if err != nil {
					perr = err
					return
				}
				back, perr = evalStructural(pb2, n)
			} else {
				pb2, err := explain.ParseCNF(strings.NewReader(text))
				if err != nil {
					perr = err
					return
				}
				back = tt.Models(n, clausesToTT(pb2.Clauses))
			}
		})
		if pn != "" {
			add("reparse-panic", pn+"\n"+text)
			return fs
		}
		if perr != nil {
			add("reparse-error", perr.Error()+"\n"+text)
			return fs
		}
		if !back.Equal(want) {
			add("reparsed-problem-differs", fmt.Sprintf("printed problem: %d models, re-parsed: %d\n%s", want.Count(), back.Count(), text))
		}
		return fs
	}
	// OPB
	cons, cl, cw, hasCost, e := refReadOPB(text)
	if e != nil {
		add("malformed-opb", fmt.Sprintf("%v\n%s", e, text))
		return fs
	}
	if want.IsEmpty() {
		// an unsatisfiable problem has no model over any variable set and no cost to compare: the
		// text only has to be unsatisfiable as well
		mv := tt.MaxVar(cons)
		if mv < n {
			mv = n
		}
		if !tt.Models(mv, cons).IsEmpty() {
			add("text-has-different-models", fmt.Sprintf("the printed problem is unsatisfiable, the text is not\n%s", text))
			return fs
		}
		var st solver.Status
		var perr error
		pn, _ := guard(func() {
			pb2, err := solver.ParseOPB(strings.NewReader(text))
			if err != nil {
				perr = err
				return
			}
			st = solver.New(pb2).Solve()
		})
		if pn != "" || perr != nil {
			add("reparse-error", fmt.Sprintf("%v %v\n%s", pn, perr, text))
		} else if st != solver.Unsat {
			add("reparsed-problem-differs", fmt.Sprintf("the printed problem is unsatisfiable, the re-parsed one is answered %v\n%s", st, text))
		}
		return fs
	}
	if mv := tt.MaxVar(cons); mv > n {
		add("variable-out-of-range", fmt.Sprintf("the text mentions x%d, the problem has %d variables\n%s", mv, n, text))
		return fs
	}
	got := tt.Models(n, cons)
	if !got.Equal(want) {
		add("text-has-different-models", fmt.Sprintf("the printed problem has %d models over %d variables, the text %d\n%s", want.Count(), n, got.Count(), text))
		return fs
	}
	wantCost := costLits != nil
	if hasCost != wantCost {
		add("cost-function-presence", fmt.Sprintf("problem has cost function: %v, text: %v\n%s", wantCost, hasCost, text))
		return fs
	}
	if wantCost {
		bad := false
		want.Each(func(a uint32) {
			if tt.Cost(cl, cw, a) != tt.Cost(oCostL, costWs, a) {
				bad = true
			}
		})
		if bad {
			add("text-has-different-cost", fmt.Sprintf("cost function %v %v printed as\n%s", oCostL, costWs, text))
			return fs
		}
	}
	var back tt.Set
	var perr error
	var bl []solver.Lit
	var bw []int
	pn, _ = guard(func() {
		pb2, err := solver.ParseOPB(strings.NewReader(text))
		if err != nil {
			perr = err
			return
		}
		back, perr = evalStructural(pb2, n)
		bl, bw = solver.VerifCostFunc(pb2)
	})
	if pn != "" {
		add("reparse-panic", pn+"\n"+text)
		return fs
	}
	if perr != nil {
		add("reparse-error", perr.Error()+"\n"+text)
		return fs
	}
	if !back.Equal(want) {
		add("reparsed-problem-differs", fmt.Sprintf("printed problem: %d models, re-parsed: %d\n%s", want.Count(), back.Count(), text))
		return fs
	}
	if wantCost {
		bi := litsToInts(bl)
		bad := bl == nil
		want.Each(func(a uint32) {
			if !bad && tt.Cost(bi, bw, a) != tt.Cost(oCostL, costWs, a) {
				bad = true
			}
		})
		if bad {
			add("reparsed-cost-differs", fmt.Sprintf("cost %v %v re-parsed as %v %v\n%s", oCostL, costWs, bi, bw, text))
		}
	}
	r.Sample("printed/"+c.Via, 1, text)
	return fs
}

func init() { core.Register(c18{}) }
