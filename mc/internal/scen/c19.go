package scen

import (
	"bytes"
	"encoding/json"
	"fmt"
	"os"
	"os/exec"
	"path/filepath"
	"strconv"
	"strings"
	"time"

	"verifmc/internal/core"
	"verifmc/internal/tt"
)

// C19 — what the command line tool prints is true.

type CLICase struct {
	Ext   string   `json:"ext"` // cnf | opb | wcnf | bf | other
	Text  string   `json:"text"`
	Flags []string `json:"flags"`
	Bad   string   `json:"bad,omitempty"` // unreadable | unknown-suffix | broken
	// references
	F    [][]int  `json:"f,omitempty"`
	N    int      `json:"n,omitempty"`
	P    *Prob    `json:"p,omitempty"`
	M    *MaxCase `json:"m,omitempty"`
	Toks []string `json:"toks,omitempty"`
}

type c19 struct{}

func (c19) ID() string    { return "C19" }
func (c19) Level() string { return "exploration" }
func (c19) Rule() string {
	return "cases = (file, flags): .cnf files for every CNF of T2 (<=2 clauses) and S3 (<=2 clauses) and the conflict-rich seeds, plus family AMO (a fixed subsample of the graphs on 6 vertices as pairwise at-most-one clauses, the two ends of one edge forced true by non-unit clauses, run with -cp: unsatisfiable exactly while that edge survives the rewriting into cardinality constraints), plus satisfiable files with 64..1203 variables and a planted model (validated by evaluating the clauses); .opb files for single PB constraints with every cost function over <=2 variables and constraint pairs; .wcnf files of the C04 family with <=2 clauses; .bf files for every syntax tree with <=3 leaves (incl. brace groups of <=3 names); flags none, -count, -certified, -mus, -cp, -verbose and -verbose with each of the others (only the flags that apply to the file kind); plus an unreadable path, an unknown suffix and a syntactically broken file of each kind. Every case starts the executable built from /repo's working tree as a child process. Oracle: exit status 0 and truthful output: answer line SATISFIABLE/OPTIMUM FOUND with a 'v' line that is a model (truth table) or UNSATISFIABLE only for unsatisfiable files; 'o' lines strictly decreasing, last == true optimum attained by the 'v' line; -count prints the exact count; -certified prints a valid RUP refutation (independent checker) when UNSAT; -mus prints a CNF that is a minimal unsatisfiable sub-multiset of the file; .bf answers match the reference truth table. Bad inputs: non-zero exit and no answer line. Non-trivial = the output had to contain a model, an optimum, a count, a certificate or a MUS that was checked."
}
func (c19) Assumptions() []string {
	return []string{"the executable is built by run.sh from /repo's working tree (path in VERIF_GOPHERSAT_BIN)", "both spellings of the positive answer line are accepted ('s SATISFIABLE', 's OPTIMUM FOUND', and plain SATISFIABLE for .bf): truthfulness is judged, not the exact wording", "flag pairs other than -verbose+X are not generated (the statement lists single flags)"}
}
func (c19) Decode(raw json.RawMessage) (core.Case, error) {
	var c CLICase
	err := json.Unmarshal(raw, &c)
	return c, err
}

func (c19) Enumerate(tier string, seed int64, yield func(string, core.Case) bool) {
	thorough := tier == "thorough"
	withVerbose := func(fs [][]string) [][]string {
		out := append([][]string{}, fs...)
		for _, f := range fs {
			out = append(out, append([]string{"-verbose"}, f...))
		}
		return out
	}
	cnfFlags := withVerbose([][]string{{}, {"-count"}, {"-certified"}, {"-mus"}, {"-cp"}})
	cnf := func(fam string, f [][]int, n int, flags [][]string) bool {
		for _, fl := range flags {
			if !yield(fam, CLICase{Ext: "cnf", Text: dimacs(f, n), Flags: fl, F: f, N: n}) {
				return false
			}
		}
		return true
	}
	// process creation costs ~13 ms here: quick keeps every formula with <=1 clause and every 40th
	// (T2) / 12th (S3) two-clause formula; thorough every 5th / 2nd
	k2 := 0
	if !famT2(2, -1, func(f [][]int, n int) bool {
		if len(f) == 2 {
			k2++
			every := 40
			if thorough {
				every = 5
			}
			if k2%every != 0 {
				return true
			}
			return cnf("cnf/T2", f, n, cnfFlags[:5])
		}
		return cnf("cnf/T2", f, n, cnfFlags)
	}) {
		return
	}
	// AMO: at-most-one structure for the -cp option (the tool then rewrites pairwise encoded groups into cardinality
	// constraints). Graphs on 6 vertices as negative binary clauses (a fixed subsample: process creation is costly),
	// with the two ends of one edge forced true through clauses that are not units at parse time
	// ((a|z)&(a|~z)): the file is unsatisfiable, and stays so only if that very edge survives the rewriting.
	{
		type edge struct{ a, b int }
		var edges []edge
		for a := 1; a <= 6; a++ {
			for b := a + 1; b <= 6; b++ {
				edges = append(edges, edge{a, b})
			}
		}
		step := 61
		if thorough {
			step = 7
		}
		for mask := 0; mask < 1<<uint(len(edges)); mask += step {
			var f [][]int
			for i, e := range edges {
				if mask>>uint(i)&1 == 1 {
					f = append(f, []int{-e.a, -e.b})
				}
			}
			for i, e := range edges {
				if mask>>uint(i)&1 == 0 || (mask/step+i)%5 != 0 {
					continue
				}
				g := append(copyCNF(f), []int{e.a, 7}, []int{e.a, -7}, []int{e.b, 8}, []int{e.b, -8})
				if !cnf("cnf/AMO", g, 8, [][]string{{"-cp"}, {"-cp", "-certified"}}) {
					return
				}
			}
			if mask%(step*8) == 0 && !cnf("cnf/AMO", f, 6, [][]string{{"-cp"}, {"-cp", "-count"}}) {
				return
			}
		}
	}
	k3 := 0
	if !famS3(2, 2, func(f [][]int, n int) bool {
		if len(f) == 2 {
			k3++
			every := 12
			if thorough {
				every = 2
			}
			if k3%every != 0 {
				return true
			}
			return cnf("cnf/S3", f, n, [][]string{{}, {"-count"}, {"-mus"}, {"-certified"}})
		}
		return cnf("cnf/S3", f, n, cnfFlags[:5])
	}) {
		return
	}
	for _, s := range seedsM(seed, tier) {
		n := maxVarCNF(s.F)
		if n > 12 {
			continue
		}
		fl := cnfFlags
		if n > 9 {
			fl = [][]string{{}, {"-certified"}, {"-mus"}, {"-cp"}, {"-verbose", "-certified"}}
		}
		if !cnf("cnf/M", s.F, n, fl) {
			return
		}
	}
	// large satisfiable files with a planted model (validated by evaluating the clauses, no truth table)
	for _, n := range []int{64, 499, 500, 501, 1203} {
		g := &lcg{s: uint64(seed)*104729 + uint64(n)}
		planted := make([]bool, n+1)
		for v := 1; v <= n; v++ {
			planted[v] = g.next()&1 == 1
		}
		var f [][]int
		lit := func(v int, sat bool) int {
			if planted[v] == sat {
				return v
			}
			return -v
		}
		for v := 1; v < n; v++ { // a chain that forces most of the planted model from its first variable
			f = append(f, []int{-lit(v, true), lit(v+1, true)})
		}
		f = append(f, []int{lit(1, true)})
		for k := 0; k < 2*n; k++ {
			a, b, c := 1+int(g.next()%uint64(n)), 1+int(g.next()%uint64(n)), 1+int(g.next()%uint64(n))
			f = append(f, []int{lit(a, true), lit(b, g.next()&1 == 1), lit(c, g.next()&1 == 1)})
		}
		for _, fl := range [][]string{{}, {"-cp"}, {"-verbose"}, {"-certified"}} {
			if !yield("cnf/large-planted", CLICase{Ext: "cnf", Text: dimacs(f, n), Flags: fl, F: f, N: n, Bad: ""}) {
				return
			}
		}
	}
	// OPB
	opbFlags := withVerbose([][]string{{}, {"-count"}, {"-cp"}})
	pa := pbAlphabet(3, 1, 2, -1, 2, []string{"ge", "eq"}, false)
	costs := [][2][]int{{nil, nil}}
	for _, cf := range costFunctions(3, 2, -1, 2, false) {
		costs = append(costs, cf)
	}
	for i, a := range pa {
		for j, cf := range costs {
			every := 389
			if thorough {
				every = 23
			}
			if (i*7+j)%every != 0 {
				continue
			}
			p := Prob{Front: "opb", N: 3, Cs: cpCons(a)}
			if cf[0] != nil {
				p.CostL, p.CostW = cf[0], cf[1]
			}
			fls := opbFlags[:3]
			if (i+j)%16 == 0 {
				fls = opbFlags
			}
			for _, fl := range fls {
				q := p
				if !yield("opb", CLICase{Ext: "opb", Text: p.OPB(), Flags: fl, P: &q, N: 3}) {
					return
				}
			}
		}
	}
	// WCNF
	wn := 0
	c04{}.Enumerate(tier, seed, func(fam string, cc core.Case) bool {
		m := cc.(MaxCase)
		if m.API || m.Chan || len(m.Hard)+len(m.Soft) > 2 {
			return true
		}
		wn++
		if (!thorough && wn%23 != 0) || (thorough && wn%3 != 0) {
			return true
		}
		mm := m
		if !yield("wcnf", CLICase{Ext: "wcnf", Text: m.Text, Flags: nil, M: &mm, N: m.N}) {
			return false
		}
		if wn%92 == 0 || thorough && wn%4 == 0 {
			return yield("wcnf", CLICase{Ext: "wcnf", Text: m.Text, Flags: []string{"-verbose"}, M: &mm, N: m.N})
		}
		return true
	})
	// BF
	ops := []string{";", "=", "->", "|", "&"}
	leafSets := [][][]string{{{"a"}, {"b"}, {"c"}}, {{"{", "a", ",", "b", "}"}, {"b"}, {"{", "a", ",", "b", ",", "c", "}"}}}
	bfn := 0
	for _, leaves := range leafSets {
		for k := 1; k <= 3; k++ {
			for _, base := range enumTrees(leaves[:k], ops) {
				vars := []*ST{base}
				for i := 0; i < base.size(); i++ {
					vars = append(vars, negateAt(base, i))
				}
				for _, t := range vars {
					bfn++
					if !thorough && k == 3 && bfn%5 != 0 {
						continue
					}
					toks := t.render(nil)
					if !yield("bf", CLICase{Ext: "bf", Text: TextCase{Toks: toks, Style: 1}.Text(), Toks: toks}) {
						return
					}
				}
			}
		}
	}
	// bad inputs
	bads := []CLICase{
		{Ext: "cnf", Bad: "unreadable"},
		{Ext: "opb", Bad: "unreadable"},
		{Ext: "wcnf", Bad: "unreadable"},
		{Ext: "bf", Bad: "unreadable"},
		{Ext: "cnf", Bad: "unreadable", Flags: []string{"-mus"}},
		{Ext: "txt", Bad: "unknown-suffix", Text: "p cnf 1 1\n1 0\n"},
		{Ext: "sat", Bad: "unknown-suffix", Text: "p cnf 1 1\n1 0\n", Flags: []string{"-count"}},
		{Ext: "cnf", Bad: "broken", Text: "p cnf 2 1\n1 x 0\n"},
		{Ext: "cnf", Bad: "broken", Text: "p cnf two 1\n1 0\n"},
		{Ext: "cnf", Bad: "broken", Text: "p cnf 1 1\n2 0\n"},
		{Ext: "cnf", Bad: "broken", Text: "p cnf 2 1\n1 x 0\n", Flags: []string{"-count"}},
		{Ext: "opb", Bad: "broken", Text: "+1 x1 >= 1\n"},
		{Ext: "opb", Bad: "broken", Text: "+1 y1 >= 1 ;\n"},
		{Ext: "opb", Bad: "broken", Text: "+1 x1 <> 1 ;\n"},
		{Ext: "wcnf", Bad: "broken", Text: "p wcnf 2 1\n1 a 0\n"},
		{Ext: "wcnf", Bad: "broken", Text: "p wcnf x 1\n1 1 0\n"},
		{Ext: "bf", Bad: "broken", Text: "a & "},
		{Ext: "bf", Bad: "broken", Text: "(a | b"},
		{Ext: "bf", Bad: "broken", Text: "a b"},
		{Ext: "bf", Bad: "broken", Text: "a | ) "},
	}
	for _, b := range bads {
		if !yield("bad-input", b) {
			return
		}
	}
}

var cliDir string

func cliTmp() string {
	if cliDir == "" {
		base := filepath.Join(core.VerifDir(), ".build", "cli")
		if b := os.Getenv("VERIF_BUILD"); b != "" {
			base = filepath.Join(b, "cli")
		}
		os.MkdirAll(base, 0o755)
		d, err := os.MkdirTemp(base, "w")
		if err != nil {
			panic(err)
		}
		cliDir = d
	}
	return cliDir
}

func (c19) Exec(cc core.Case, r *core.Rec) []core.Failure {
	c := cc.(CLICase)
	r.Execution()
	bin := os.Getenv("VERIF_GOPHERSAT_BIN")
	if bin == "" {
		return []core.Failure{{Sig: "harness/no-binary", Detail: "VERIF_GOPHERSAT_BIN is not set"}}
	}
	path := filepath.Join(cliTmp(), "input."+c.Ext)
	os.Remove(path)
	if c.Bad != "unreadable" {
		if err := os.WriteFile(path, []byte(c.Text), 0o644); err != nil {
			return []core.Failure{{Sig: "harness/cannot-write", Detail: err.Error()}}
		}
	}
	args := append(append([]string{}, c.Flags...), path)
	cmd := exec.Command(bin, args...)
	cmd.Env = append(os.Environ(), "GOMAXPROCS=2")
	var stdout, stderr bytes.Buffer
	cmd.Stdout, cmd.Stderr = &stdout, &stderr
	if err := cmd.Start(); err != nil {
		return []core.Failure{{Sig: "harness/cannot-start", Detail: err.Error()}}
	}
	done := make(chan error, 1)
	go func() { done <- cmd.Wait() }()
	exit := 0
	select {
	case err := <-done:
		if err != nil {
			if ee, ok := err.(*exec.ExitError); ok {
				exit = ee.ExitCode()
			} else {
				exit = -1
			}
		}
	case <-time.After(90 * time.Second):
		cmd.Process.Kill()
		<-done
		return []core.Failure{{Sig: "gophersat/" + c.Ext + "/timeout", Detail: fmt.Sprintf("no result within 90 s for flags %v", c.Flags)}}
	}
	flagKey := strings.Join(c.Flags, "")
	if flagKey == "" {
		flagKey = "noflag"
	}
	sigp := "gophersat/" + c.Ext + "/" + strings.ReplaceAll(flagKey, "-verbose", "")
	if strings.HasSuffix(sigp, "/") {
		sigp += "verbose"
	}
	var fs []core.Failure
	add := func(kind, detail string) {
		fs = append(fs, core.Failure{Sig: sigp + "/" + kind, Detail: fmt.Sprintf("%s\nargs=%v exit=%d\nstdout:\n%s\nstderr:\n%s", detail, c.Flags, exit, trunc(stdout.String()), trunc(stderr.String()))})
	}
	out := stdout.String()
	lines := strings.Split(out, "\n")
	// answer lines
	answer := ""
	var vline []string
	var olines []int
	var intLines [][]int
	var bfModel map[string]bool
	for _, ln := range lines {
		t := strings.TrimSpace(ln)
		switch {
		case strings.HasPrefix(t, "s "):
			answer = strings.TrimSpace(t[2:])
		case t == "SATISFIABLE" || t == "UNSATISFIABLE":
			answer = t
		case strings.HasPrefix(t, "v "):
			vline = append(vline, strings.Fields(t[2:])...) // a model may be spread over several v lines
		case strings.HasPrefix(t, "o "):
			v, err := strconv.Atoi(strings.TrimSpace(t[2:]))
			if err == nil {
				olines = append(olines, v)
			}
		case c.Ext == "bf" && strings.Contains(t, ": ") && !strings.HasPrefix(t, "c solving"):
			i := strings.Index(t, ": ")
			if bfModel == nil {
				bfModel = map[string]bool{}
			}
			bfModel[t[:i]] = t[i+2:] == "true"
		case strings.HasPrefix(t, "c ") || t == "c" || strings.HasPrefix(t, "p ") || strings.HasPrefix(t, "&{"):
		default:
			if i := strings.Index(t, ": "); i > 0 && c.Ext == "bf" {
				if bfModel == nil {
					bfModel = map[string]bool{}
				}
				bfModel[t[:i]] = t[i+2:] == "true"
				continue
			}
			fl := strings.Fields(t)
			if len(fl) == 0 {
				continue
			}
			var ints []int
			ok := true
			for _, x := range fl {
				v, err := strconv.Atoi(x)
				if err != nil {
					ok = false
					break
				}
				ints = append(ints, v)
			}
			if ok {
				intLines = append(intLines, ints)
			}
		}
	}
	positive := answer == "SATISFIABLE" || answer == "OPTIMUM FOUND"
	negative := answer == "UNSATISFIABLE"
	r.Outcome(fmt.Sprintf("%s/%s/exit=%d/answer=%q", c.Ext, flagKey, exit, answer))
	if c.Bad != "" {
		if exit == 0 {
			add("zero-exit-on-bad-input", c.Bad)
		}
		if positive || negative {
			add("answer-line-on-bad-input", c.Bad)
		}
		return fs
	}
	if exit != 0 {
		// -mus on a satisfiable file legitimately fails (there is no MUS)
		if hasFlag(c.Flags, "-mus") && c.Ext == "cnf" && !tt.Models(c.N, clausesToTT(c.F)).IsEmpty() {
			if positive || negative {
				add("answer-line-with-error-exit", "")
			}
			return fs
		}
		add("non-zero-exit-on-wellformed-file", "")
		return fs
	}
	modelFromV := func(n int, xform bool) ([]bool, bool) {
		m := make([]bool, n)
		seen := 0
		for _, tok := range vline {
			neg := strings.HasPrefix(tok, "-")
			t := strings.TrimPrefix(tok, "-")
			if xform {
				if !strings.HasPrefix(t, "x") {
					return nil, false
				}
				t = t[1:]
			}
			v, err := strconv.Atoi(t)
			if err != nil {
				return nil, false
			}
			if v == 0 {
				continue
			}
			if v < 1 || v > n {
				return nil, false
			}
			m[v-1] = !neg
			seen++
		}
		return m, seen == n
	}
	switch c.Ext {
	case "cnf":
		if c.N > 20 {
			// large planted instance: satisfiable by construction; the printed model is evaluated directly
			if !positive {
				add("untruthful-answer", fmt.Sprintf("answer %q on a satisfiable file (planted model)", answer))
				return fs
			}
			r.NonTrivial()
			m, ok := modelFromV(c.N, false)
			if !ok {
				add("malformed-v-line", fmt.Sprintf("%d tokens for %d variables", len(vline), c.N))
				return fs
			}
			for _, cl := range c.F {
				sat := false
				for _, l := range cl {
					if (l > 0 && m[l-1]) || (l < 0 && !m[-l-1]) {
						sat = true
						break
					}
				}
				if !sat {
					add("v-line-not-a-model", fmt.Sprintf("clause %v is falsified by the printed model", cl))
					return fs
				}
			}
			return fs
		}
		models := tt.Models(c.N, clausesToTT(c.F))
		sat := !models.IsEmpty()
		switch {
		case hasFlag(c.Flags, "-mus"):
			r.NonTrivial()
			// the last "p cnf" block of the output is the MUS
			idx := strings.LastIndex(out, "p cnf")
			if idx < 0 {
				add("no-mus-printed", "")
				return fs
			}
			_, cls, err := refReadDIMACS(out[idx:])
			if err != nil {
				add("malformed-mus", err.Error())
				return fs
			}
			res := struct{ Clauses [][]int }{cls}
			for _, f := range judgeSubsetPlain(c.F, c.N, res.Clauses) {
				add(f, "")
			}
		case hasFlag(c.Flags, "-count"):
			r.NonTrivial()
			if len(intLines) == 0 || len(intLines[len(intLines)-1]) != 1 {
				add("no-count-printed", "")
				return fs
			}
			if got := intLines[len(intLines)-1][0]; got != models.Count() {
				add("wrong-count", fmt.Sprintf("printed %d, the file has %d models", got, models.Count()))
			}
		default:
			if !positive && !negative {
				add("no-answer-line", "")
				return fs
			}
			if positive != sat {
				add("untruthful-answer", fmt.Sprintf("answer %q, satisfiable=%v", answer, sat))
				return fs
			}
			if sat {
				r.NonTrivial()
				m, ok := modelFromV(c.N, false)
				if !ok {
					add("malformed-v-line", fmt.Sprint(vline))
				} else if !models.Has(tt.FromBools(m)) {
					add("v-line-not-a-model", fmt.Sprint(vline))
				}
			}
			if hasFlag(c.Flags, "-certified") {
				db := newRupDB(c.N, c.F)
				for _, cl := range intLines {
					if len(cl) == 0 || cl[len(cl)-1] != 0 {
						continue
					}
					cl = cl[:len(cl)-1]
					if !tt.Implied(models, tt.Clause(cl...)) {
						add("certificate-line-not-implied", fmt.Sprint(cl))
						return fs
					}
					if !sat && !db.isRUP(cl) {
						add("certificate-line-not-rup", fmt.Sprint(cl))
						return fs
					}
					db.add(cl)
				}
				if !sat {
					r.NonTrivial()
					if !db.conflictUnder(nil) {
						add("certificate-is-not-a-refutation", "")
					}
				}
			}
		}
	case "opb":
		p := *c.P
		models := tt.Models(3, p.Ref())
		sat := !models.IsEmpty()
		if hasFlag(c.Flags, "-count") {
			r.NonTrivial()
			if len(intLines) == 0 || len(intLines[len(intLines)-1]) != 1 {
				add("no-count-printed", "")
				return fs
			}
			// the tool counts over the variables the file mentions
			n := p.MaxVar()
			if got, want := intLines[len(intLines)-1][0], tt.Models(n, p.Ref()).Count(); got != want {
				add("wrong-count", fmt.Sprintf("printed %d, the file has %d models over %d variables", got, want, n))
			}
			return fs
		}
		if !positive && !negative {
			add("no-answer-line", "")
			return fs
		}
		if positive != sat {
			add("untruthful-answer", fmt.Sprintf("answer %q, satisfiable=%v", answer, sat))
			return fs
		}
		if sat {
			r.NonTrivial()
			n := p.MaxVar()
			m, ok := modelFromV(n, true)
			if !ok {
				add("malformed-v-line", fmt.Sprint(vline))
				return fs
			}
			if !modelOK(models, m) {
				add("v-line-not-a-model", fmt.Sprint(vline))
				return fs
			}
			best, _ := tt.MinCost(models, p.CostL, p.CostW)
			if p.CostL == nil {
				best = 0
			}
			for i := 1; i < len(olines); i++ {
				if olines[i] >= olines[i-1] {
					add("o-lines-not-decreasing", fmt.Sprint(olines))
					return fs
				}
			}
			if len(olines) == 0 {
				add("no-o-line", "")
				return fs
			}
			if olines[len(olines)-1] != best {
				add("last-o-line-is-not-the-optimum", fmt.Sprintf("o lines %v, optimum %d", olines, best))
				return fs
			}
			if p.CostL != nil && tt.Cost(p.CostL, p.CostW, tt.FromBools(m)) != best {
				add("v-line-does-not-attain-the-optimum", fmt.Sprint(vline))
			}
		}
	case "wcnf":
		m := *c.M
		hm := tt.Models(m.N, clausesToTT(m.Hard))
		costOf := func(a uint32) int {
			s := 0
			for i, cl := range m.Soft {
				if !tt.Clause(cl...).Holds(a) {
					s += m.SoftW[i]
				}
			}
			return s
		}
		best, sat := 0, false
		hm.Each(func(a uint32) {
			if x := costOf(a); !sat || x < best {
				best, sat = x, true
			}
		})
		if !positive && !negative {
			add("no-answer-line", "")
			return fs
		}
		if positive != sat {
			add("untruthful-answer", fmt.Sprintf("answer %q, hard part satisfiable=%v", answer, sat))
			return fs
		}
		if sat {
			r.NonTrivial()
			mod, ok := modelFromV(m.N, true)
			if !ok {
				add("malformed-v-line", fmt.Sprint(vline))
				return fs
			}
			a := tt.FromBools(mod)
			if !hm.Has(a) {
				add("v-line-violates-a-hard-clause", fmt.Sprint(vline))
				return fs
			}
			for i := 1; i < len(olines); i++ {
				if olines[i] >= olines[i-1] {
					add("o-lines-not-decreasing", fmt.Sprint(olines))
					return fs
				}
			}
			if len(olines) == 0 || olines[len(olines)-1] != best {
				add("last-o-line-is-not-the-optimum", fmt.Sprintf("o lines %v, optimum %d", olines, best))
				return fs
			}
			if costOf(a) != best {
				add("v-line-does-not-attain-the-optimum", fmt.Sprint(vline))
			}
		}
	case "bf":
		ref, ok := refParse(c.Toks)
		if !ok {
			return fs
		}
		names := ref.VarNames()
		table := ref.Table(names)
		nTrue := 0
		for _, b := range table {
			if b {
				nTrue++
			}
		}
		if !positive && !negative {
			add("no-answer-line", "")
			return fs
		}
		if positive != (nTrue > 0) {
			add("untruthful-answer", fmt.Sprintf("answer %q, the formula has %d satisfying assignments", answer, nTrue))
			return fs
		}
		if positive {
			r.NonTrivial()
			var free []int
			base := 0
			for i, n := range names {
				v, ok := bfModel[n]
				if !ok {
					free = append(free, i)
				} else if v {
					base |= 1 << uint(i)
				}
			}
			for x := 0; x < 1<<uint(len(free)); x++ {
				a := base
				for j, i := range free {
					if x>>uint(j)&1 == 1 {
						a |= 1 << uint(i)
					}
				}
				if !table[a] {
					add("printed-assignment-is-not-a-model", fmt.Sprint(bfModel))
					break
				}
			}
		}
	}
	if len(fs) == 0 {
		r.Sample("cli/"+c.Ext, 1, map[string]interface{}{"flags": c.Flags, "file": c.Text, "stdout": trunc(out)})
	}
	return fs
}

func trunc(s string) string {
	if len(s) > 1200 {
		return s[:1200] + "…"
	}
	return s
}

func hasFlag(fs []string, f string) bool {
	for _, x := range fs {
		if x == f {
			return true
		}
	}
	return false
}

// judgeSubsetPlain is the C07 oracle on plain clause lists (literal order may differ: the tool
// prints clauses as it parsed them, so clauses are compared as written).
func judgeSubsetPlain(in [][]int, n int, got [][]int) []string {
	cnt := map[string]int{}
	for _, c := range in {
		cnt[seqKey(c)]++
	}
	for _, c := range got {
		k := seqKey(c)
		if cnt[k] == 0 {
			return []string{"mus-not-a-sub-multiset"}
		}
		cnt[k]--
	}
	if !tt.Models(n, clausesToTT(got)).IsEmpty() {
		return []string{"mus-satisfiable"}
	}
	for i := range got {
		rest := append(copyCNF(got[:i]), copyCNF(got[i+1:])...)
		if tt.Models(n, clausesToTT(rest)).IsEmpty() {
			return []string{"mus-not-minimal"}
		}
	}
	return nil
}

func init() { core.Register(c19{}) }
