package scen

import (
	"encoding/json"
	"fmt"
	"strings"

	"github.com/crillab/gophersat/solver"

	"verifmc/internal/choice"
	"verifmc/internal/core"
	"verifmc/internal/tt"
)

// CNFCase is one (formula, configuration) pair for C01 / C06.
type CNFCase struct {
	F     [][]int `json:"f"`
	N     int     `json:"n"`     // variables of the family
	Decl  int     `json:"decl"`  // declared variable count (ParseSliceNb / DIMACS header); 0 = none
	Entry string  `json:"entry"` // slice | slicenb | dimacs
	NbMax int     `json:"nbmax"` // initial learned-clause limit, 0 = default
	Dev   int     `json:"dev"`   // E2 deviation bound
	// CPAMO: the configuration of "gophersat -cp": DetectAtMostOne() on the parsed problem, then CuttingPlanes on
	CPAMO bool `json:"cpamo,omitempty"`
}

// cnfObs is everything observable from one execution.
type cnfObs struct {
	parsePanic  string
	parseErr    error
	parseStatus solver.Status
	nbVars      int
	panicked    string
	aborted     bool
	status      solver.Status
	model       []bool
	modelPanic  string
	cert        []string
	certOverrun bool
	stats       solver.Stats
}

func clausesToTT(f [][]int) []tt.Constr {
	r := make([]tt.Constr, len(f))
	for i, c := range f {
		r[i] = tt.Clause(c...)
	}
	return r
}

func parseCNFEntry(c CNFCase) (pb *solver.Problem, err error) {
	f := copyCNF(c.F)
	switch c.Entry {
	case "slice":
		return solver.ParseSlice(f), nil
	case "slicenb":
		return solver.ParseSliceNb(f, c.Decl), nil
	case "dimacs":
		return solver.ParseCNF(strings.NewReader(dimacs(f, c.Decl)))
	}
	panic("bad entry")
}

// runCNF executes parse + New + Solve on the real code under the installed controller.
func runCNF(c CNFCase, certified bool) (o cnfObs) {
	var pb *solver.Problem
	if p, v := core.Safely(func() { pb, o.parseErr = parseCNFEntry(c) }); p {
		o.parsePanic = v
		return
	}
	if o.parseErr != nil {
		return
	}
	if c.CPAMO {
		if p, v := core.Safely(func() { pb.DetectAtMostOne() }); p {
			o.parsePanic = v
			return
		}
	}
	o.parseStatus = pb.Status
	o.nbVars = pb.NbVars
	var s *solver.Solver
	var ch chan string
	var drained chan struct{}
	func() {
		defer func() {
			if e := recover(); e != nil {
				if _, ok := e.(solver.VerifAbort); ok {
					o.aborted = true
				} else {
					o.panicked = fmt.Sprint(e)
				}
			}
		}()
		s = solver.New(pb)
		s.CuttingPlanes = c.CPAMO
		if certified {
			ch = make(chan string, 256)
			drained = make(chan struct{})
			go func() {
				for l := range ch {
					o.cert = append(o.cert, l)
				}
				close(drained)
			}()
			s.Certified = true
			s.CertChan = ch
		}
		o.status = s.Solve()
		o.stats = s.Stats
	}()
	if ch != nil {
		close(ch)
		<-drained
	}
	if o.panicked != "" || o.aborted {
		return
	}
	if o.status == solver.Sat {
		if p, v := core.Safely(func() { o.model = s.Model() }); p {
			o.modelPanic = v
		}
	}
	return
}

func (c CNFCase) declared() int {
	mv := maxVarCNF(c.F)
	switch c.Entry {
	case "slice":
		return mv
	case "slicenb":
		if c.Decl > mv {
			return c.Decl
		}
		return mv
	}
	return c.Decl
}

func entryName(e string) string {
	switch e {
	case "slice":
		return "ParseSlice"
	case "slicenb":
		return "ParseSliceNb"
	}
	return "ParseCNF"
}

// judgeVerdict is the C01 oracle for one execution.
func judgeVerdict(c CNFCase, o cnfObs, models tt.Set) []core.Failure {
	e := entryName(c.Entry)
	var fs []core.Failure
	add := func(kind, detail string) { fs = append(fs, core.Failure{Sig: e + "/" + kind, Detail: detail}) }
	if o.parsePanic != "" {
		add("parse-panic", o.parsePanic)
		return fs
	}
	if o.parseErr != nil {
		add("parse-error", o.parseErr.Error())
		return fs
	}
	sat := !models.IsEmpty()
	if o.parseStatus == solver.Unsat && sat {
		add("parse-status-unsat-on-satisfiable", "Problem.Status is Unsat after parsing a satisfiable formula")
	}
	if o.parseStatus == solver.Sat && !sat {
		add("parse-status-sat-on-unsatisfiable", "Problem.Status is Sat after parsing an unsatisfiable formula")
	}
	if o.panicked != "" {
		add("solve-panic", o.panicked)
		return fs
	}
	if o.aborted {
		add("nontermination", "step budget exceeded")
		return fs
	}
	switch o.status {
	case solver.Sat:
		if !sat {
			add("sat-on-unsatisfiable", "Solve answered Sat, the formula has no model")
			return fs
		}
		if o.modelPanic != "" {
			add("model-panic", o.modelPanic)
			return fs
		}
		if len(o.model) != c.declared() {
			add("model-length", fmt.Sprintf("model has %d values, %d variables declared", len(o.model), c.declared()))
		}
		if len(o.model) > models.N {
			// more variables than the family: the formula does not mention them; compare on the prefix
			o.model = o.model[:models.N]
		}
		if len(o.model) < models.N {
			add("model-length", fmt.Sprintf("model has %d values, formula uses %d variables", len(o.model), models.N))
			return fs
		}
		if !models.Has(tt.FromBools(o.model)) {
			add("invalid-model", fmt.Sprintf("model %v falsifies a clause of the input", o.model))
		}
	case solver.Unsat:
		if sat {
			add("unsat-on-satisfiable", "Solve answered Unsat, the formula has a model")
		}
	default:
		add("indet", fmt.Sprintf("Solve returned status %d", o.status))
	}
	return fs
}

// judgeCert is the C06 oracle for one certified execution (plus the differential with the
// uncertified observation).
func judgeCert(c CNFCase, o, plain cnfObs, models tt.Set) []core.Failure {
	e := entryName(c.Entry)
	var fs []core.Failure
	add := func(kind, detail string) { fs = append(fs, core.Failure{Sig: e + "/" + kind, Detail: detail}) }
	if o.parsePanic != "" || o.parseErr != nil {
		return nil // C01/C13 territory: nothing was certified
	}
	if o.panicked != "" {
		add("solve-panic-certified", o.panicked)
		return fs
	}
	if o.aborted {
		add("nontermination-certified", "step budget exceeded")
		return fs
	}
	if o.certOverrun {
		return []core.Failure{{Sig: "harness/cert-buffer-overrun", Detail: "certificate channel buffer filled"}}
	}
	// differential: same verdict, model validity unchanged
	if plain.panicked == "" && !plain.aborted && plain.status != o.status {
		add("verdict-changed-by-certification", fmt.Sprintf("status %v without certificate, %v with", plain.status, o.status))
	}
	sat := !models.IsEmpty()
	if o.status == solver.Sat {
		if len(o.model) >= models.N && !models.Has(tt.FromBools(o.model[:models.N])) {
			pm := plain.status == solver.Sat && len(plain.model) >= models.N && models.Has(tt.FromBools(plain.model[:models.N]))
			if pm {
				add("model-invalid-only-when-certified", fmt.Sprintf("model %v", o.model))
			} else {
				add("invalid-model-certified", fmt.Sprintf("model %v", o.model))
			}
		}
	}
	db := newRupDB(models.N, c.F)
	for i, ln := range o.cert {
		cl, err := parseCertLine(ln)
		if err != nil {
			add("malformed-line", err.Error())
			return fs
		}
		for _, l := range cl {
			if l > models.N || -l > models.N {
				add("line-out-of-range", fmt.Sprintf("line %d %q mentions an undeclared variable", i, ln))
				return fs
			}
		}
		if !tt.Implied(models, tt.Clause(cl...)) {
			add("line-not-implied", fmt.Sprintf("line %d %q is not a consequence of the formula", i, ln))
			return fs
		}
		if o.status == solver.Unsat {
			if !db.isRUP(cl) {
				add("line-not-rup", fmt.Sprintf("line %d %q is not derivable by unit propagation from the formula and earlier lines", i, ln))
				return fs
			}
		}
		db.add(cl)
	}
	if o.status == solver.Unsat && !sat {
		if !db.conflictUnder(nil) {
			add("no-refutation", fmt.Sprintf("after %d lines the empty clause is not derivable by unit propagation", len(o.cert)))
		}
	}
	return fs
}

func cnfOutcome(o cnfObs) string {
	switch {
	case o.parsePanic != "" || o.panicked != "":
		return "panic"
	case o.parseErr != nil:
		return "parse-error"
	case o.aborted:
		return "aborted"
	}
	return fmt.Sprintf("%v/parse=%v/confl=%d/learned=%d/units=%d/restarts=%d/del=%d", o.status, o.parseStatus,
		min3(o.stats.NbConflicts), min3(o.stats.NbLearned), min3(o.stats.NbUnitLearned), min3(o.stats.NbRestarts), min3(o.stats.NbDeleted))
}

func min3(x int) int {
	if x > 3 {
		return 3
	}
	return x
}

func countStats(r *core.Rec, st solver.Stats) {
	r.Count("conflicts", int64(st.NbConflicts))
	r.Count("decisions", int64(st.NbDecisions))
	r.Count("learned_clauses", int64(st.NbLearned))
	r.Count("learned_units", int64(st.NbUnitLearned))
	r.Count("restarts", int64(st.NbRestarts))
	r.Count("deleted_clauses", int64(st.NbDeleted))
}

func countExplore(r *core.Rec, st choice.Stats) {
	r.Transition(st.Points)
	r.Count("e2_forced_restarts", int64(st.Restarts))
	r.Count("e2_forced_reductions", int64(st.Reduces))
	r.Count("e2_steered_decisions", int64(st.Steered))
	r.Count("e2_nondefault_executions", int64(st.NonDefault))
	if st.Capped {
		r.Count("e2_capped_cases", 1)
	}
}

// enumerateCNF is the shared family list of C01 and C06.
func enumerateCNF(tier string, seed int64, certOnly bool, yield func(string, core.Case) bool) {
	type cfg struct {
		entry string
		declD int // declared = n + declD
		nbmax int
		dev   int
	}
	emit := func(fam string, f [][]int, n int, cfgs []cfg) bool {
		for _, k := range cfgs {
			c := CNFCase{F: f, N: n, Entry: k.entry, NbMax: k.nbmax, Dev: k.dev}
			if k.entry != "slice" {
				c.Decl = n + k.declD
			}
			if !yield(fam, c) {
				return false
			}
		}
		return true
	}
	thorough := tier == "thorough"
	// T2: all entries, unbounded choice exploration on the tiny part
	full := []cfg{{"slice", 0, 0, 9}, {"slicenb", 0, 0, 1}, {"slicenb", 1, 0, 1}, {"dimacs", 0, 0, 1}, {"dimacs", 1, 1, 1}, {"slice", 0, 1, 2}}
	light := []cfg{{"slice", 0, 0, 1}, {"dimacs", 1, 1, 1}, {"slice", 0, -1, 0}}
	if certOnly {
		full = []cfg{{"slice", 0, 0, 9}, {"dimacs", 1, 1, 2}}
		light = []cfg{{"slice", 0, 0, 1}, {"slice", 0, 1, 1}, {"slice", 0, -1, 0}}
	}
	t2max, t2short := 3, 3
	if thorough {
		t2short = -1
	}
	if thorough { // four clauses over the short alphabet (length <= 2)
		short := litSeqs(2, 0, 2)
		if !sequences(len(short), 4, func(idx []int) bool { return emit("T2x4", pick(short, idx), 2, light[:1]) }) {
			return
		}
	}
	if !famT2(t2max, t2short, func(f [][]int, n int) bool {
		if len(f) <= 2 {
			return emit("T2", f, n, full)
		}
		return emit("T2", f, n, light)
	}) {
		return
	}
	d3len := 4
	if thorough {
		d3len = 6
	}
	d3cfg := []cfg{{"slice", 0, 0, 1}, {"dimacs", 0, 0, 0}}
	if certOnly {
		d3cfg = d3cfg[:1]
	}
	if !famD3(d3len, func(f [][]int, n int) bool { return emit("D3", f, n, d3cfg) }) {
		return
	}
	// LL: two long dirty clauses (every literal sequence of length 5 over 2 variables; 6 in thorough)
	// followed by nothing or one unit: parse-time simplification code guarded by a length threshold, and
	// state leaking from the simplification of one clause into the next
	{
		long := litSeqs(2, 5, 5)
		if thorough {
			long = litSeqs(2, 5, 6)
		}
		llcfg := []cfg{{"slice", 0, 0, 0}}
		k := 0
		for _, a := range long {
			for _, b := range long {
				for _, u := range [][]int{nil, {-1}, {-2}, {1}, {2}} {
					f := [][]int{append([]int{}, a...), append([]int{}, b...)}
					if u != nil {
						f = append(f, append([]int{}, u...))
					}
					k++
					c := llcfg
					if k%11 == 0 && !certOnly {
						c = []cfg{{"dimacs", 0, 0, 0}}
					}
					if certOnly && k%5 != 0 {
						continue
					}
					if thorough && len(a)+len(b) == 12 && k%4 != 0 {
						continue
					}
					if !emit("LL", f, 2, c) {
						return
					}
				}
			}
		}
	}
	s3seq, s3multi := 3, 3
	if thorough {
		s3seq, s3multi = 4, 5
	}
	if !famS3(s3seq, s3multi, func(f [][]int, n int) bool {
		if len(f) <= 2 {
			return emit("S3", f, n, full)
		}
		return emit("S3", f, n, light)
	}) {
		return
	}
	// B3: ORDERED sequences of 4 (and 5) unit and binary clauses over 3 variables: parse-time simplification works
	// in passes over the clause list, so what a unit found late in the list does to earlier and later clauses depends
	// on the order (S3 has sequences up to length 3 and multisets beyond)
	{
		alpha := litSets(3, 1, 2)
		b3 := []cfg{{"slice", 0, 0, 0}, {"dimacs", 0, 0, 0}}
		if !sequences(len(alpha), 4, func(idx []int) bool { return emit("B3", pick(alpha, idx), 3, b3) }) {
			return
		}
		if !certOnly || thorough {
			if !sequences(len(alpha), 5, func(idx []int) bool { return emit("B3", pick(alpha, idx), 3, b3[:1]) }) {
				return
			}
		}
	}
	// PC: permuted cascades. Horn-like chains with fan-in (a; a->b; a->c; b&c->d; ...) whose refutation or forced model
	// needs a cascade of unit propagations; EVERY order of the clause list (6 to 8 clauses: 720 to 40320 orders), the
	// fact written as a unit clause and as a clause repeating its literal (the slice front end collects true unit
	// clauses before it simplifies). The parse-time simplifier moves clauses around while it scans the list, so what
	// it does depends on the order.
	{
		bases := [][][]int{
			{{1}, {-1, 2}, {-1, 3}, {-2, -3, 4}, {-4, 5}, {-4, -5}},                   // unsatisfiable
			{{1}, {-1, 2}, {-1, 3}, {-2, -3, 4}, {-4, 5}, {-5, 6, 3}},                 // one forced prefix, free tail
			{{1}, {-1, 2}, {-1, 3}, {-2, -3, 4}, {-4, 5}, {-4, 6}, {-5, -6, 7}, {-7}}, // unsatisfiable, two fan-ins
		}
		if thorough {
			bases = append(bases, [][]int{{-1}, {1, 2}, {1, 3}, {-2, -3, -4}, {4, 5}, {4, 6}, {-5, -6, 7}, {-7, 2}})
		}
		pc := []cfg{{"dimacs", 0, 0, 0}, {"slice", 0, 0, 0}}
		for _, base := range bases {
			n := maxVarCNF(base)
			for dup := 0; dup < 2; dup++ {
				f := copyCNF(base)
				if dup == 1 {
					f[0] = []int{f[0][0], f[0][0]}
				}
				if !permutations(len(f), func(perm []int) bool {
					g := make([][]int, len(f))
					for i, k := range perm {
						g[i] = f[k]
					}
					return emit("PC", g, n, pc[dup:dup+1])
				}) {
					return
				}
			}
		}
	}
	// CPA (C06 only): the configuration of "gophersat -cp -certified" (DetectAtMostOne, then cutting planes, with a
	// certificate) on at-most-one structured formulas: the pigeonhole members of family M with their one-edit
	// neighbours, and a regression instance (9 variables, 13 clauses, found by a hunting sub-agent) with its neighbours
	if certOnly {
		reg := [][]int{{1, 2, 3}, {8, 9}, {-1, -6}, {-3, -7}, {-2, -4}, {-5, -9}, {-5, -7}, {-7, -9}, {-6, -8}, {4, 5}, {-1, -8}, {-3, -9}, {6, 7}}
		emitCPA := func(f [][]int, n int) bool {
			return yield("CPA", CNFCase{F: f, N: n, Entry: "slice", CPAMO: true})
		}
		vars := [][][]int{reg}
		for i := range reg {
			vars = append(vars, append(copyCNF(reg[:i]), copyCNF(reg[i+1:])...))
			for j := range reg[i] {
				h := copyCNF(reg)
				h[i][j] = -h[i][j]
				vars = append(vars, h)
			}
		}
		for _, f := range vars {
			if !emitCPA(f, 9) {
				return
			}
		}
		if !famM(seed, tier, func(name string, f [][]int, n int) bool {
			if !strings.HasPrefix(name, "php") {
				return true
			}
			return emitCPA(f, n)
		}) {
			return
		}
	}
	s4max := 3
	if thorough {
		s4max = 5
	}
	if !famS4(0, s4max, func(f [][]int, n int) bool {
		if len(f) == 5 {
			return emit("S4", f, n, []cfg{{"slice", 0, 0, 0}})
		}
		return emit("S4", f, n, light[:1])
	}) {
		return
	}
	l6k, l6p := 5, 2
	if thorough {
		l6k, l6p = 6, 3
	}
	wl := []cfg{{"slice", 0, 0, 1}}
	if !famL6(l6k, l6p, func(f [][]int, n int) bool { return emit("L6", f, n, wl) }) {
		return
	}
	mcfg := []cfg{{"slice", 0, 0, 1}, {"dimacs", 0, 1, 1}, {"slice", 0, 2, 0}, {"slice", 0, -1, 1}}
	if certOnly {
		mcfg = []cfg{{"slice", 0, 0, 1}, {"slice", 0, 1, 1}, {"slice", 0, -1, 1}}
	}
	if !famM(seed, tier, func(name string, f [][]int, n int) bool { return emit("M/"+name, f, n, mcfg) }) {
		return
	}
	nr := 40
	if thorough {
		nr = 400
	}
	rcfg := []cfg{{"slice", 0, 0, 1}, {"slice", 0, 1, 0}, {"slice", 0, -1, 0}}
	if certOnly {
		rcfg = rcfg[:1]
	}
	if !famR(seed, nr, func(name string, f [][]int, n int) bool { return emit("R", f, n, rcfg) }) {
		return
	}
	// R3: seeded threshold 3-CNFs over 10..14 variables (tens of conflicts per run, learned clauses
	// reused as reasons), every heuristic choice list with <=1 deviation
	n3 := 300
	if thorough {
		n3 = 3000
	}
	g := &lcg{s: uint64(seed)*16807 + 3}
	for i := 0; i < n3; i++ {
		n := 10 + int(g.next()%5)
		f := rand3cnf(g.next(), n, (426*n+50)/100)
		dev := 1
		if !certOnly && (i < 100 || thorough && i < 600) {
			dev = 2 // two deviations on the first seeds (verdict check only: cheap)
		}
		if !emit("R3", f, n, []cfg{{"slice", 0, 0, dev}}) {
			return
		}
	}
}

// ---------------------------------------------------------------------------

type c01 struct{}

func (c01) ID() string    { return "C01" }
func (c01) Level() string { return "exploration" }
func (c01) Rule() string {
	return "cases = every CNF of the families T2 (n=2, all literal sequences of length 0..3 as clauses, all clause sequences), D3 (one dirty clause over 3 variables with units before/after), LL (every pair of literal sequences of length 5 over 2 variables as clauses, with no or one unit after), B3 (every ORDERED sequence of 4 or 5 unit/binary clauses over 3 variables), PC (every order of the clause list of Horn-like cascades of 6..8 clauses), S3, S4, L6 (watch movement), M (conflict-rich seeds and all one-edit neighbours), R (seeded catalogue of random 2/3-CNFs over 6..10 variables with all one-edit neighbours), R3 (seeded threshold 3-CNFs over 10..14 variables) x entry point (ParseSlice, ParseSliceNb with n and n+1 declared, ParseCNF) x learned-clause limit (default, reduce at 1 or 2 stored clauses, or tight: the limit always equals the number of stored clauses); each case is executed once per heuristic choice list (decision variable/polarity, restart now, reduce now) up to the case's deviation bound; every execution is judged against the truth table of the input as written. A case is non-trivial when some execution made a decision or met a conflict, or parse-time simplification decided it with at least one unit or duplicate/tautology removal (clauses present)."
}
func (c01) Assumptions() []string {
	return []string{
		"the truth-table reference (internal/tt) is correct",
		"heuristic choices are forced only through heuristic state (activities, polarities, LBD statistics, database limit) by the verif hooks",
		"formulas outside the enumerated families (more than 20 variables, long runs with thousands of conflicts) are not covered",
	}
}

func (c01) Decode(raw json.RawMessage) (core.Case, error) {
	var c CNFCase
	err := json.Unmarshal(raw, &c)
	return c, err
}

func (c01) Enumerate(tier string, seed int64, yield func(string, core.Case) bool) {
	enumerateCNF(tier, seed, false, yield)
}

func (c01) Exec(cc core.Case, r *core.Rec) []core.Failure {
	c := cc.(CNFCase)
	models := tt.Models(c.declared(), clausesToTT(c.F))
	var fails []core.Failure
	opts := choice.Std(c.Dev)
	opts.NbMax = c.NbMax
	opts.Stop = r.Expired
	if c.Dev == 2 {
		opts.MaxRuns = 400000
	}
	st := choice.Explore(opts, r.ReplayChoices, func(ctl *choice.Ctl, choices []int) bool {
		ctl.OnState = r.State
		r.Execution()
		o := runCNF(c, false)
		countStats(r, o.stats)
		r.Outcome(cnfOutcome(o))
		if o.stats.NbDecisions > 0 || o.stats.NbConflicts > 0 || (len(c.F) > 0 && o.parseStatus != solver.Indet) {
			r.NonTrivial()
		}
		for _, f := range judgeVerdict(c, o, models) {
			f.Choices = append([]int{}, choices...)
			fails = append(fails, f)
		}
		return len(fails) == 0
	})
	countExplore(r, st)
	if st.Diverged {
		fails = append(fails, core.Failure{Sig: "harness/choice-divergence", Detail: "a recorded choice was out of range on replay of its own prefix"})
	}
	if st.NonDefault > 0 {
		r.Sample("cnf-with-choices", 2, map[string]interface{}{"case": c, "choices": st.SampleTrace})
	}
	r.Sample("cnf", 2, c)
	return fails
}

func init() { core.Register(c01{}) }
