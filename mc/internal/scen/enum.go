// Package scen holds one scenario per property plus the shared, canonical
// enumerators of the finite input families they explore.
package scen

import (
	"fmt"
	"strings"
)

// ---------------------------------------------------------------------------
// clause alphabets

// litSeqs returns all literal sequences of length lo..hi over variables 1..n
// (positive before negative, shorter first): includes duplicates and tautologies.
func litSeqs(n, lo, hi int) [][]int {
	var lits []int
	for v := 1; v <= n; v++ {
		lits = append(lits, v, -v)
	}
	var out [][]int
	var rec func(cur []int, left int)
	rec = func(cur []int, left int) {
		if left == 0 {
			out = append(out, append([]int{}, cur...))
			return
		}
		for _, l := range lits {
			rec(append(cur, l), left-1)
		}
	}
	for k := lo; k <= hi; k++ {
		rec(nil, k)
	}
	return out
}

// litSets returns all non-tautological literal sets of size lo..hi over 1..n
// (each variable at most once, either polarity), canonical order.
func litSets(n, lo, hi int) [][]int {
	var out [][]int
	for k := lo; k <= hi; k++ {
		var rec func(start int, cur []int)
		rec = func(start int, cur []int) {
			if len(cur) == k {
				out = append(out, append([]int{}, cur...))
				return
			}
			for v := start; v <= n; v++ {
				rec(v+1, append(cur, v))
				rec(v+1, append(cur, -v))
			}
		}
		rec(1, nil)
	}
	return out
}

// sequences enumerates all sequences of length m over alphabet indices.
func sequences(alpha, m int, yield func(idx []int) bool) bool {
	idx := make([]int, m)
	for {
		if !yield(idx) {
			return false
		}
		i := m - 1
		for i >= 0 {
			idx[i]++
			if idx[i] < alpha {
				break
			}
			idx[i] = 0
			i--
		}
		if i < 0 {
			return true
		}
	}
}

// multisets enumerates all non-decreasing index sequences of length m.
func multisets(alpha, m int, yield func(idx []int) bool) bool {
	idx := make([]int, m)
	if m == 0 {
		return yield(idx)
	}
	if alpha == 0 {
		return true
	}
	for {
		if !yield(idx) {
			return false
		}
		i := m - 1
		for i >= 0 && idx[i] == alpha-1 {
			i--
		}
		if i < 0 {
			return true
		}
		idx[i]++
		for j := i + 1; j < m; j++ {
			idx[j] = idx[i]
		}
	}
}

// subsets enumerates all strictly increasing index sequences of length m.
func subsets(alpha, m int, yield func(idx []int) bool) bool {
	if m > alpha {
		return true
	}
	idx := make([]int, m)
	for i := range idx {
		idx[i] = i
	}
	for {
		if !yield(idx) {
			return false
		}
		i := m - 1
		for i >= 0 && idx[i] == alpha-m+i {
			i--
		}
		if i < 0 {
			return true
		}
		idx[i]++
		for j := i + 1; j < m; j++ {
			idx[j] = idx[j-1] + 1
		}
	}
}

func pick(alpha [][]int, idx []int) [][]int {
	f := make([][]int, len(idx))
	for i, k := range idx {
		f[i] = append([]int{}, alpha[k]...)
	}
	return f
}

func copyCNF(f [][]int) [][]int {
	r := make([][]int, len(f))
	for i := range f {
		r[i] = append([]int{}, f[i]...)
	}
	return r
}

func maxVarCNF(f [][]int) int {
	m := 0
	for _, c := range f {
		for _, l := range c {
			if l < 0 {
				l = -l
			}
			if l > m {
				m = l
			}
		}
	}
	return m
}

// ---------------------------------------------------------------------------
// CNF families. Each yields (formula, number of variables of the family).

// famT2: n=2, every literal sequence of length 0..3 as a clause; all sequences of
// m<=maxM clauses; if shortM is set, length-shortM formulas are restricted to the
// clauses of length <=2 (21 clauses).
func famT2(maxM int, shortM int, yield func(f [][]int, n int) bool) bool {
	full := litSeqs(2, 0, 3)
	short := litSeqs(2, 0, 2)
	for m := 0; m <= maxM; m++ {
		alpha := full
		if m == shortM {
			alpha = short
		}
		if !sequences(len(alpha), m, func(idx []int) bool { return yield(pick(alpha, idx), 2) }) {
			return false
		}
	}
	return true
}

// famD3 "dirty clause under parse-time propagation": n=3, one clause that is any literal
// sequence of length 1..maxLen (duplicates, tautologies, every order), together with every
// sequence of 0..2 unit clauses, the units placed before and after the clause.
func famD3(maxLen int, yield func(f [][]int, n int) bool) bool {
	cls := litSeqs(3, 1, maxLen)
	units := litSeqs(3, 0, 2)
	for _, c := range cls {
		for _, us := range units {
			var before, after [][]int
			for _, u := range us {
				before = append(before, []int{u})
			}
			before = append(before, append([]int{}, c...))
			after = append(after, append([]int{}, c...))
			for _, u := range us {
				after = append(after, []int{u})
			}
			if !yield(before, 3) {
				return false
			}
			if len(us) > 0 && !yield(after, 3) {
				return false
			}
		}
	}
	return true
}

// famS3: n=3, the 26 literal sets of size 1..3, all sequences of m<=maxSeq clauses,
// then all multisets for maxSeq<m<=maxMulti.
func famS3(maxSeq, maxMulti int, yield func(f [][]int, n int) bool) bool {
	alpha := litSets(3, 1, 3)
	for m := 0; m <= maxSeq; m++ {
		if !sequences(len(alpha), m, func(idx []int) bool { return yield(pick(alpha, idx), 3) }) {
			return false
		}
	}
	for m := maxSeq + 1; m <= maxMulti; m++ {
		if !multisets(len(alpha), m, func(idx []int) bool { return yield(pick(alpha, idx), 3) }) {
			return false
		}
	}
	return true
}

// famS4: n=4, the 56 literal sets of size 2..3, all multisets of m<=maxM clauses.
func famS4(minM, maxM int, yield func(f [][]int, n int) bool) bool {
	alpha := litSets(4, 2, 3)
	for m := minM; m <= maxM; m++ {
		if !multisets(len(alpha), m, func(idx []int) bool { return yield(pick(alpha, idx), 4) }) {
			return false
		}
	}
	return true
}

// famL6: watch movement. One long clause of length k in 4..maxK over variables 1..k in
// every sign pattern, with every set of <=maxPush pushers (units and binaries over the
// same variables, restricted to those that falsify or imply literals of the clause).
func famL6(maxK, maxPush int, yield func(f [][]int, n int) bool) bool {
	for k := 4; k <= maxK; k++ {
		for signs := 0; signs < 1<<uint(k); signs++ {
			long := make([]int, k)
			for i := 0; i < k; i++ {
				long[i] = i + 1
				if signs>>uint(i)&1 == 1 {
					long[i] = -(i + 1)
				}
			}
			// pushers: unit ¬l for l in long; binary (¬l_i ∨ ¬l_j) chains: (l_i -> ¬l_j)
			var push [][]int
			for _, l := range long {
				push = append(push, []int{-l})
			}
			for i := 0; i+1 < k; i++ {
				push = append(push, []int{long[i], -long[i+1]}) // ¬l_i -> ¬l_{i+1}
			}
			push = append(push, []int{long[k-1]}) // satisfy through the last literal
			for m := 0; m <= maxPush; m++ {
				ok := subsets(len(push), m, func(idx []int) bool {
					f := [][]int{append([]int{}, long...)}
					f = append(f, pick(push, idx)...)
					if !yield(f, k) {
						return false
					}
					// pushers first as well (different watch initialisation)
					if m > 0 {
						g := append(pick(push, idx), append([]int{}, long...))
						return yield(g, k)
					}
					return true
				})
				if !ok {
					return false
				}
			}
		}
	}
	return true
}

// php returns the pigeonhole formula with p pigeons and h holes (var (i,j) = i*h+j+1).
func php(p, h int) [][]int {
	v := func(i, j int) int { return i*h + j + 1 }
	var f [][]int
	for i := 0; i < p; i++ {
		var c []int
		for j := 0; j < h; j++ {
			c = append(c, v(i, j))
		}
		f = append(f, c)
	}
	for j := 0; j < h; j++ {
		for i := 0; i < p; i++ {
			for k := i + 1; k < p; k++ {
				f = append(f, []int{-v(i, j), -v(k, j)})
			}
		}
	}
	return f
}

// parity returns a chain x1 xor x2 xor ... xor xn = rhs encoded with ternary xors through
// no auxiliary variables for n<=4 (direct encoding).
func parityCNF(n int, rhs bool) [][]int {
	var f [][]int
	for a := 0; a < 1<<uint(n); a++ {
		ones := 0
		for i := 0; i < n; i++ {
			if a>>uint(i)&1 == 1 {
				ones++
			}
		}
		if (ones%2 == 1) != rhs { // forbid assignment a
			c := make([]int, n)
			for i := 0; i < n; i++ {
				if a>>uint(i)&1 == 1 {
					c[i] = -(i + 1)
				} else {
					c[i] = i + 1
				}
			}
			f = append(f, c)
		}
	}
	return f
}

// grid3 returns the 3x3 "exactly one per row and per column" formula (9 variables).
func grid3() [][]int {
	v := func(i, j int) int { return i*3 + j + 1 }
	var f [][]int
	for i := 0; i < 3; i++ {
		f = append(f, []int{v(i, 0), v(i, 1), v(i, 2)})
		f = append(f, []int{v(0, i), v(1, i), v(2, i)})
		for a := 0; a < 3; a++ {
			for b := a + 1; b < 3; b++ {
				f = append(f, []int{-v(i, a), -v(i, b)})
				f = append(f, []int{-v(a, i), -v(b, i)})
			}
		}
	}
	return f
}

type lcg struct{ s uint64 }

func (l *lcg) next() uint64 {
	l.s = l.s*6364136223846793005 + 1442695040888963407
	return l.s >> 33
}

// rand3cnf returns a pseudo-random 3-CNF with n variables and m clauses.
func rand3cnf(seed uint64, n, m int) [][]int {
	g := &lcg{s: seed*2654435761 + uint64(n)*131 + uint64(m)}
	var f [][]int
	for len(f) < m {
		a, b, c := int(g.next()%uint64(n))+1, int(g.next()%uint64(n))+1, int(g.next()%uint64(n))+1
		if a == b || b == c || a == c {
			continue
		}
		cl := []int{a, b, c}
		for i := range cl {
			if g.next()&1 == 1 {
				cl[i] = -cl[i]
			}
		}
		f = append(f, cl)
	}
	return f
}

// seedsM returns the catalogue of conflict-rich seed formulas.
func seedsM(seed int64, tier string) []struct {
	Name string
	F    [][]int
} {
	type sf = struct {
		Name string
		F    [][]int
	}
	out := []sf{
		{"php32", php(3, 2)},
		{"php43", php(4, 3)},
		{"par3t", parityCNF(3, true)},
		{"par4f", parityCNF(4, false)},
		{"grid3", grid3()},
		{"par3both", append(parityCNF(3, true), parityCNF(3, false)...)},
		{"rnd10", rand3cnf(uint64(seed), 10, 43)},
		{"rnd12", rand3cnf(uint64(seed)+1, 12, 52)},
	}
	if tier == "thorough" {
		out = append(out, sf{"php54", php(5, 4)}, sf{"rnd14", rand3cnf(uint64(seed)+2, 14, 60)},
			sf{"rnd10b", rand3cnf(uint64(seed)+3, 10, 45)}, sf{"rnd8", rand3cnf(uint64(seed)+4, 8, 36)})
	}
	return out
}

// famM yields every seed and all its one-edit neighbours.
func famM(seed int64, tier string, yield func(name string, f [][]int, n int) bool) bool {
	for _, s := range seedsM(seed, tier) {
		n := maxVarCNF(s.F)
		if !yield(s.Name, copyCNF(s.F), n) {
			return false
		}
		for i := range s.F {
			// delete clause i
			g := append(copyCNF(s.F[:i]), copyCNF(s.F[i+1:])...)
			if !yield(s.Name+"-del", g, n) {
				return false
			}
			// move clause i first
			if i > 0 {
				g = append([][]int{append([]int{}, s.F[i]...)}, append(copyCNF(s.F[:i]), copyCNF(s.F[i+1:])...)...)
				if !yield(s.Name+"-mv", g, n) {
					return false
				}
			}
			// reverse literal order of clause i
			g = copyCNF(s.F)
			for a, b := 0, len(g[i])-1; a < b; a, b = a+1, b-1 {
				g[i][a], g[i][b] = g[i][b], g[i][a]
			}
			if len(g[i]) > 1 {
				if !yield(s.Name+"-rev", g, n) {
					return false
				}
			}
			// flip literal (i,j)
			for j := range s.F[i] {
				g = copyCNF(s.F)
				g[i][j] = -g[i][j]
				if !yield(s.Name+"-flip", g, n) {
					return false
				}
			}
		}
		for v := 1; v <= n; v++ {
			for _, u := range []int{v, -v} {
				g := append(copyCNF(s.F), []int{u})
				if !yield(s.Name+"-unit", g, n) {
					return false
				}
			}
		}
	}
	return true
}

// famR: a seeded catalogue of nseeds random CNFs (2- and 3-literal clauses, 6..10 variables, clause
// ratio around the satisfiability threshold), each followed by ALL its one-edit neighbours
// (delete a clause, flip a literal, add a unit).
func famR(seed int64, nseeds int, yield func(name string, f [][]int, n int) bool) bool {
	g := &lcg{s: uint64(seed)*48271 + 11}
	for sd := 0; sd < nseeds; sd++ {
		n := 6 + int(g.next()%5)
		m := 3*n + int(g.next()%uint64(2*n))
		var f [][]int
		for len(f) < m {
			k := 2 + int(g.next()%2)
			used := map[int]bool{}
			var c []int
			for len(c) < k {
				v := 1 + int(g.next()%uint64(n))
				if used[v] {
					continue
				}
				used[v] = true
				if g.next()&1 == 0 {
					v = -v
				}
				c = append(c, v)
			}
			f = append(f, c)
		}
		name := fmt.Sprintf("R/seed%d", sd)
		if !yield(name, copyCNF(f), n) {
			return false
		}
		for i := range f {
			if !yield(name+"-del", append(copyCNF(f[:i]), copyCNF(f[i+1:])...), n) {
				return false
			}
			for j := range f[i] {
				h := copyCNF(f)
				h[i][j] = -h[i][j]
				if !yield(name+"-flip", h, n) {
					return false
				}
			}
		}
		for v := 1; v <= n; v++ {
			if !yield(name+"-unit", append(copyCNF(f), []int{v}), n) || !yield(name+"-unit", append(copyCNF(f), []int{-v}), n) {
				return false
			}
		}
	}
	return true
}

// dimacs renders a formula canonically.
func dimacs(f [][]int, n int) string {
	var sb strings.Builder
	fmt.Fprintf(&sb, "p cnf %d %d\n", n, len(f))
	for _, c := range f {
		for _, l := range c {
			fmt.Fprintf(&sb, "%d ", l)
		}
		sb.WriteString("0\n")
	}
	return sb.String()
}

// Exported aliases used by the schedule-exploration scenarios.
func FamS3(maxSeq, maxMulti int, yield func(f [][]int, n int) bool) bool {
	return famS3(maxSeq, maxMulti, yield)
}
func FamT2(maxM, shortM int, yield func(f [][]int, n int) bool) bool {
	return famT2(maxM, shortM, yield)
}
func FamM(seed int64, tier string, yield func(name string, f [][]int, n int) bool) bool {
	return famM(seed, tier, yield)
}
