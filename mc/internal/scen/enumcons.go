package scen

// Alphabets of cardinality and pseudo-boolean constraints (complete within their bounds).

// cardAlphabet: every constructor call of the cardinality front end over variables 1..n.
func cardAlphabet(n int) []Con {
	var out []Con
	sets := litSets(n, 0, n)
	for _, l := range sets {
		out = append(out, Con{T: "al1", L: l}, Con{T: "am1", L: l}, Con{T: "ex1", L: l})
	}
	for _, l := range sets {
		for k := -1; k <= len(l)+1; k++ {
			out = append(out, Con{T: "card", L: l, K: k})
		}
	}
	return out
}

// weightVectors: all vectors of length s with entries in [lo..hi].
func weightVectors(s, lo, hi int) [][]int {
	var out [][]int
	cur := make([]int, s)
	var rec func(i int)
	rec = func(i int) {
		if i == s {
			out = append(out, append([]int{}, cur...))
			return
		}
		for w := lo; w <= hi; w++ {
			cur[i] = w
			rec(i + 1)
		}
	}
	rec(0)
	return out
}

func absSum(w []int) int {
	s := 0
	for _, x := range w {
		if x < 0 {
			s -= x
		} else {
			s += x
		}
	}
	return s
}

// pbAlphabet: every constructor call of the PB front end over 1..n with literal sets of
// size minS..maxS, weights in [lo..hi], degree in [-1..sum|w|+1]; kinds selects the
// weighted constructors ("ge","le","eq").
func pbAlphabet(n, minS, maxS, lo, hi int, kinds []string, plain bool) []Con {
	var out []Con
	sets := litSets(n, minS, maxS)
	if plain {
		for _, l := range sets {
			out = append(out, Con{T: "prop", L: l})
			for k := -1; k <= len(l)+1; k++ {
				out = append(out, Con{T: "atl", L: l, K: k}, Con{T: "atm", L: l, K: k})
			}
		}
	}
	for _, l := range sets {
		for _, w := range weightVectors(len(l), lo, hi) {
			top := absSum(w) + 1
			for k := -1; k <= top; k++ {
				for _, t := range kinds {
					out = append(out, Con{T: t, L: l, W: w, K: k})
				}
			}
		}
	}
	return out
}

// unitCons returns the unit constraints over 1..n for the given front end.
func unitCons(front string, n int) []Con {
	var out []Con
	for v := 1; v <= n; v++ {
		for _, l := range []int{v, -v} {
			if front == "card" {
				out = append(out, Con{T: "card", L: []int{l}, K: 1})
			} else {
				out = append(out, Con{T: "ge", L: []int{l}, W: []int{1}, K: 1})
			}
		}
	}
	return out
}

// decreasingPB: one constraint with strictly decreasing coefficients k..1 over k variables
// in every sign pattern and every degree 1..sum.
func decreasingPB(k int) []Con {
	var out []Con
	w := make([]int, k)
	sum := 0
	for i := range w {
		w[i] = k - i
		sum += w[i]
	}
	for signs := 0; signs < 1<<uint(k); signs++ {
		l := make([]int, k)
		for i := range l {
			l[i] = i + 1
			if signs>>uint(i)&1 == 1 {
				l[i] = -(i + 1)
			}
		}
		for d := 1; d <= sum; d++ {
			out = append(out, Con{T: "ge", L: l, W: append([]int{}, w...), K: d})
		}
	}
	return out
}

func cpCon(c Con) Con {
	r := Con{T: c.T, K: c.K, L: append([]int{}, c.L...)}
	if c.W != nil {
		r.W = append([]int{}, c.W...)
	}
	return r
}

func cpCons(cs ...Con) []Con {
	r := make([]Con, len(cs))
	for i, c := range cs {
		r[i] = cpCon(c)
	}
	return r
}

// enumMixedCatalogue yields a seeded catalogue of problems mixing clauses and cardinality
// constraints (weighted: PB constraints with weights 1..3) over 5..10 variables, each seed followed
// by ALL its one-edit neighbours (delete a constraint, flip a literal, degree +-1).
func enumMixedCatalogue(seed int64, nseeds int, weighted bool, yield func(name string, p Prob) bool) bool {
	g := &lcg{s: uint64(seed)*7919 + 17}
	if weighted {
		g.s += 991
	}
	tag := "MC"
	if weighted {
		tag = "MW"
	}
	for sd := 0; sd < nseeds; sd++ {
		n := 5 + int(g.next()%6)
		m := 3 + int(g.next()%uint64(2*n))
		var cs []Con
		for i := 0; i < m; i++ {
			k := 2 + int(g.next()%4)
			if k > n {
				k = n
			}
			used := map[int]bool{}
			var l []int
			for len(l) < k {
				v := 1 + int(g.next()%uint64(n))
				if used[v] {
					continue
				}
				used[v] = true
				if g.next()&1 == 0 {
					v = -v
				}
				l = append(l, v)
			}
			if weighted {
				w := make([]int, k)
				sum := 0
				for x := range w {
					w[x] = 1 + int(g.next()%3)
					sum += w[x]
				}
				cs = append(cs, Con{T: "ge", L: l, W: w, K: 1 + int(g.next()%uint64(sum))})
				continue
			}
			card := 1
			if g.next()%3 != 0 {
				card = 1 + int(g.next()%uint64(k))
			}
			cs = append(cs, Con{T: "atl", L: l, K: card})
		}
		name := tag // (the seed index is part of the case, not of the family name: evidence stays small)
		if !yield(name, Prob{Front: "pb", N: n, Cs: cpCons(cs...)}) {
			return false
		}
		for i := range cs {
			g2 := append(cpCons(cs[:i]...), cpCons(cs[i+1:]...)...)
			if !yield(name+"-del", Prob{Front: "pb", N: n, Cs: g2}) {
				return false
			}
			for dk := -1; dk <= 1; dk += 2 {
				g2 = cpCons(cs...)
				g2[i].K += dk
				if g2[i].K < 1 || (!weighted && g2[i].K > len(g2[i].L)) {
					continue
				}
				if !yield(name+"-deg", Prob{Front: "pb", N: n, Cs: g2}) {
					return false
				}
			}
			for j := range cs[i].L {
				g2 = cpCons(cs...)
				g2[i].L[j] = -g2[i].L[j]
				if !yield(name+"-flip", Prob{Front: "pb", N: n, Cs: g2}) {
					return false
				}
			}
		}
	}
	return true
}

// optRegression: instances on which a defect was first seen outside the enumerated families (found by a random
// campaign of a sub-agent against the unmodified tree: cutting planes + cost function never terminated, repair 0d0240d).
// They are catalogue members like the seeded ones: explored with all their one-edit neighbours.
var optRegression = []Prob{
	{Front: "pb", N: 10, Cs: []Con{
		{T: "ge", L: []int{3, -2, 10}, W: []int{1, 1, 1}, K: 2},
		{T: "ge", L: []int{-8, -9, -6, 5, -1, 3, -4, 2, -10, -7}, W: []int{1, 1, 1, 1, 1, 1, 1, 1, 1, 1}, K: 6},
		{T: "ge", L: []int{-7, 8}, W: []int{1, 1}, K: 2},
		{T: "ge", L: []int{3, -8, 1, -9, -5, -4}, W: []int{1, 1, 1, 1, 1, 1}, K: 1},
		{T: "ge", L: []int{9, -1, -8}, W: []int{1, 1, 1}, K: 1},
		{T: "ge", L: []int{-4, -6, -7}, W: []int{1, 1, 1}, K: 2},
		{T: "ge", L: []int{-4, 2, 9}, W: []int{1, 1, 1}, K: 2},
		{T: "ge", L: []int{7, 8, 5, -6, 9, 2, -1, 10}, W: []int{1, 1, 1, 1, 1, 1, 1, 1}, K: 5},
		{T: "ge", L: []int{5, 8, 9, -6, -3, 7, -2, -1}, W: []int{1, 1, 1, 1, 1, 1, 1, 1}, K: 4},
		{T: "ge", L: []int{-1, -2, 3, 4, -5, -6, 7, 8, -9, -10}, W: []int{1, 1, 1, 1, 1, 1, 1, 1, 1, 1}, K: 1}},
		CostL: []int{-2, -6, 4, -1, 5, -3, -8, -9, 10}, CostW: []int{1, 2, 4, 2, 1, 4, 3, 4, 2}},
	{Front: "pb", N: 10, Cs: []Con{
		{T: "ge", L: []int{-1, -2, 6, 7, 3, 9}, W: []int{1, 1, 1, 1, 1, 1}, K: 1},
		{T: "ge", L: []int{-2, 7}, W: []int{2, 2}, K: 1},
		{T: "ge", L: []int{1, 4, 6, 5, 8, -9}, W: []int{1, 1, 1, 2, 1, 1}, K: 4},
		{T: "ge", L: []int{-10, -7, 1, -2, -6, -8, -5, 9, -4, 3}, W: []int{1, 1, 2, 1, 1, 2, 2, 2, 2, 2}, K: 13},
		{T: "ge", L: []int{3, -7, -1, 4, -10, -6}, W: []int{2, 2, 2, 1, 2, 2}, K: 3},
		{T: "ge", L: []int{1, 2, 3, 4, 5, 6, -7, 8, -9, 10}, W: []int{1, 1, 1, 1, 1, 1, 1, 1, 1, 1}, K: 1}},
		CostL: []int{5, -9, 6, -7}, CostW: []int{1, 3, 4, 5}},
	{Front: "pb", N: 10, Cs: []Con{
		{T: "ge", L: []int{-3, -5, -6}, W: []int{1, 3, 2}, K: 2},
		{T: "ge", L: []int{10, -4, -7}, W: []int{2, 1, 4}, K: 2},
		{T: "ge", L: []int{-7, 2, -1, 8, -10, 4, 5}, W: []int{2, 4, 3, 5, 3, 3, 1}, K: 6},
		{T: "ge", L: []int{-1, -6, 2, -9, 8, -4, 10}, W: []int{1, 4, 5, 3, 2, 5, 3}, K: 7},
		{T: "ge", L: []int{-7, 2, -8, 9, -1, 5, -10, -6}, W: []int{5, 1, 3, 4, 3, 1, 1, 1}, K: 8},
		{T: "ge", L: []int{-3, 8, 10}, W: []int{3, 3, 1}, K: 1},
		{T: "ge", L: []int{7, 2}, W: []int{5, 2}, K: 2},
		{T: "ge", L: []int{-5, 4, -7, 1, 6}, W: []int{1, 4, 3, 5, 2}, K: 4},
		{T: "ge", L: []int{-3, -2, -6, -8}, W: []int{1, 4, 5, 4}, K: 3},
		{T: "ge", L: []int{8, 7, -2, 9, 4, 10}, W: []int{1, 5, 1, 2, 2, 4}, K: 6},
		{T: "ge", L: []int{-1, 2, 3, -4, 5, 6, -7, -8, -9, -10}, W: []int{1, 1, 1, 1, 1, 1, 1, 1, 1, 1}, K: 1}},
		CostL: []int{4, 10, 5, 8, -2, -7, -6, 9}, CostW: []int{1, 5, 2, 1, 3, 2, 4, 2}},
	{Front: "pb", N: 12, Cs: []Con{
		{T: "ge", L: []int{6, 5, 4, 9, 11, -3, 8, -12, 1}, W: []int{2, 2, 3, 2, 3, 1, 1, 2, 2}, K: 5},
		{T: "ge", L: []int{-8, 6, 9, -10, 2, -12, -11}, W: []int{4, 1, 2, 3, 4, 4, 1}, K: 16},
		{T: "ge", L: []int{12, 11}, W: []int{1, 2}, K: 1},
		{T: "ge", L: []int{8, 10, -5, -9, 4, 12, -7, -3, -1}, W: []int{4, 1, 3, 2, 2, 1, 1, 1, 2}, K: 6},
		{T: "ge", L: []int{1, 11, 12, -10}, W: []int{4, 1, 1, 3}, K: 1},
		{T: "ge", L: []int{8, 7, -2, 9, -12, 3, -6, -5, -11, -1, -4}, W: []int{2, 2, 2, 1, 3, 2, 1, 2, 1, 1, 1}, K: 3},
		{T: "ge", L: []int{-7, -2, 12, -10, 11, 5, 3, 9}, W: []int{4, 4, 2, 1, 4, 2, 3, 3}, K: 8},
		{T: "ge", L: []int{5, 7, -4}, W: []int{4, 2, 1}, K: 1},
		{T: "ge", L: []int{2, 3, -1, -10, -6, 8, 4, -12, -9, 5}, W: []int{1, 3, 3, 2, 3, 1, 1, 3, 2, 4}, K: 7},
		{T: "ge", L: []int{11, 1}, W: []int{2, 4}, K: 2},
		{T: "ge", L: []int{1, 2, -3, 4, 5, -6, -7, 8, 9, 10, 11, 12}, W: []int{1, 1, 1, 1, 1, 1, 1, 1, 1, 1, 1, 1}, K: 1}},
		CostL: []int{-1, -2, -7, 9, -5, 4, -10, -3, 8, -6}, CostW: []int{3, 5, 2, 5, 2, 4, 1, 1, 4, 5}},
}

// enumOptCatalogue yields MO: a seeded catalogue of optimisation problems over 8..12 variables (5..11 PB or
// cardinality constraints of 2..n literals, weights 1..5, plus one clause over all variables; cost function over about
// three quarters of the variables, either polarity, weights 1..5), the regression instances above, and ALL one-edit
// neighbours of each: a constraint deleted, a degree +-1, a literal flipped, a cost weight +-1, a cost term dropped.
func enumOptCatalogue(seed int64, nseeds int, yield func(name string, p Prob) bool) bool {
	g := &lcg{s: uint64(seed)*104729 + 71}
	gen := func() Prob {
		n := 8 + int(g.next()%5)
		m := 5 + int(g.next()%7)
		var cs []Con
		for i := 0; i < m; i++ {
			k := 2 + int(g.next()%uint64(n-1))
			used := map[int]bool{}
			var l, w []int
			unitW := g.next()&1 == 0
			sum := 0
			for len(l) < k {
				v := 1 + int(g.next()%uint64(n))
				if used[v] {
					continue
				}
				used[v] = true
				if g.next()&1 == 0 {
					v = -v
				}
				l = append(l, v)
				x := 1
				if !unitW {
					x = 1 + int(g.next()%5)
				}
				w = append(w, x)
				sum += x
			}
			cs = append(cs, Con{T: "ge", L: l, W: w, K: 1 + int(g.next()%uint64(sum*2/3+1))})
		}
		var all, ones []int
		for v := 1; v <= n; v++ {
			x := v
			if g.next()&1 == 0 {
				x = -v
			}
			all = append(all, x)
			ones = append(ones, 1)
		}
		cs = append(cs, Con{T: "ge", L: all, W: ones, K: 1})
		p := Prob{Front: "pb", N: n, Cs: cs}
		for v := 1; v <= n; v++ {
			if g.next()%4 == 0 {
				continue
			}
			x := v
			if g.next()&1 == 0 {
				x = -v
			}
			p.CostL = append(p.CostL, x)
			p.CostW = append(p.CostW, 1+int(g.next()%5))
		}
		if len(p.CostL) == 0 {
			p.CostL, p.CostW = []int{1}, []int{1}
		}
		return p
	}
	clone := func(p Prob) Prob {
		q := p
		q.Cs = cpCons(p.Cs...)
		q.CostL = append([]int{}, p.CostL...)
		q.CostW = append([]int{}, p.CostW...)
		return q
	}
	one := func(name string, p Prob) bool {
		if !yield(name, clone(p)) {
			return false
		}
		for i := range p.Cs {
			q := clone(p)
			q.Cs = append(q.Cs[:i], q.Cs[i+1:]...)
			if !yield(name+"-del", q) {
				return false
			}
			for dk := -1; dk <= 1; dk += 2 {
				q = clone(p)
				q.Cs[i].K += dk
				if q.Cs[i].K < 1 {
					continue
				}
				if !yield(name+"-deg", q) {
					return false
				}
			}
			for j := range p.Cs[i].L {
				q = clone(p)
				q.Cs[i].L[j] = -q.Cs[i].L[j]
				if !yield(name+"-flip", q) {
					return false
				}
			}
		}
		for i := range p.CostL {
			for dw := -1; dw <= 1; dw += 2 {
				q := clone(p)
				q.CostW[i] += dw
				if q.CostW[i] < 0 {
					continue
				}
				if !yield(name+"-costw", q) {
					return false
				}
			}
			if len(p.CostL) > 1 {
				q := clone(p)
				q.CostL = append(q.CostL[:i], q.CostL[i+1:]...)
				q.CostW = append(q.CostW[:i], q.CostW[i+1:]...)
				if !yield(name+"-costdrop", q) {
					return false
				}
			}
		}
		return true
	}
	for _, p := range optRegression {
		if !one("MO/reg", p) {
			return false
		}
	}
	for sd := 0; sd < nseeds; sd++ {
		if !one("MO", gen()) {
			return false
		}
	}
	return true
}
