package scen

// Alphabets of cardinality and pseudo-boolean constraints (complete within their bounds).

// cardAlphabet: every constructor call of the cardinality front end over variables 1..n.
func cardAlphabet(n int) []Con {
	var out []Con
	sets := litSets(n, 0, n)
	for _, l := range sets {
		out = append(out, Con{T: "al1", L: l}, Con{T: "am1", L: l}, Con{T: "ex1", L: l})
	}
	for _, l := range sets {
		for k := -1; k <= len(l)+1; k++ {
			out = append(out, Con{T: "card", L: l, K: k})
		}
	}
	return out
}

// weightVectors: all vectors of length s with entries in [lo..hi].
func weightVectors(s, lo, hi int) [][]int {
	var out [][]int
	cur := make([]int, s)
	var rec func(i int)
	rec = func(i int) {
		if i == s {
			out = append(out, append([]int{}, cur...))
			return
		}
		for w := lo; w <= hi; w++ {
			cur[i] = w
			rec(i + 1)
		}
	}
	rec(0)
	return out
}

func absSum(w []int) int {
	s := 0
	for _, x := range w {
		if x < 0 {
			s -= x
		} else {
			s += x
		}
	}
	return s
}

// pbAlphabet: every constructor call of the PB front end over 1..n with literal sets of
// size minS..maxS, weights in [lo..hi], degree in [-1..sum|w|+1]; kinds selects the
// weighted constructors ("ge","le","eq").
func pbAlphabet(n, minS, maxS, lo, hi int, kinds []string, plain bool) []Con {
	var out []Con
	sets := litSets(n, minS, maxS)
	if plain {
		for _, l := range sets {
			out = append(out, Con{T: "prop", L: l})
			for k := -1; k <= len(l)+1; k++ {
				out = append(out, Con{T: "atl", L: l, K: k}, Con{T: "atm", L: l, K: k})
			}
		}
	}
	for _, l := range sets {
		for _, w := range weightVectors(len(l), lo, hi) {
			top := absSum(w) + 1
			for k := -1; k <= top; k++ {
				for _, t := range kinds {
					out = append(out, Con{T: t, L: l, W: w, K: k})
				}
			}
		}
	}
	return out
}

// unitCons returns the unit constraints over 1..n for the given front end.
func unitCons(front string, n int) []Con {
	var out []Con
	for v := 1; v <= n; v++ {
		for _, l := range []int{v, -v} {
			if front == "card" {
				out = append(out, Con{T: "card", L: []int{l}, K: 1})
			} else {
				out = append(out, Con{T: "ge", L: []int{l}, W: []int{1}, K: 1})
			}
		}
	}
	return out
}

// decreasingPB: one constraint with strictly decreasing coefficients k..1 over k variables
// in every sign pattern and every degree 1..sum.
func decreasingPB(k int) []Con {
	var out []Con
	w := make([]int, k)
	sum := 0
	for i := range w {
		w[i] = k - i
		sum += w[i]
	}
	for signs := 0; signs < 1<<uint(k); signs++ {
		l := make([]int, k)
		for i := range l {
			l[i] = i + 1
			if signs>>uint(i)&1 == 1 {
				l[i] = -(i + 1)
			}
		}
		for d := 1; d <= sum; d++ {
			out = append(out, Con{T: "ge", L: l, W: append([]int{}, w...), K: d})
		}
	}
	return out
}

func cpCon(c Con) Con {
	r := Con{T: c.T, K: c.K, L: append([]int{}, c.L...)}
	if c.W != nil {
		r.W = append([]int{}, c.W...)
	}
	return r
}

func cpCons(cs ...Con) []Con {
	r := make([]Con, len(cs))
	for i, c := range cs {
		r[i] = cpCon(c)
	}
	return r
}

// enumMixedCatalogue yields a seeded catalogue of problems mixing clauses and cardinality
// constraints (weighted: PB constraints with weights 1..3) over 5..10 variables, each seed followed
// by ALL its one-edit neighbours (delete a constraint, flip a literal, degree +-1).
func enumMixedCatalogue(seed int64, nseeds int, weighted bool, yield func(name string, p Prob) bool) bool {
	g := &lcg{s: uint64(seed)*7919 + 17}
	if weighted {
		g.s += 991
	}
	tag := "MC"
	if weighted {
		tag = "MW"
	}
	for sd := 0; sd < nseeds; sd++ {
		n := 5 + int(g.next()%6)
		m := 3 + int(g.next()%uint64(2*n))
		var cs []Con
		for i := 0; i < m; i++ {
			k := 2 + int(g.next()%4)
			if k > n {
				k = n
			}
			used := map[int]bool{}
			var l []int
			for len(l) < k {
				v := 1 + int(g.next()%uint64(n))
				if used[v] {
					continue
				}
				used[v] = true
				if g.next()&1 == 0 {
					v = -v
				}
				l = append(l, v)
			}
			if weighted {
				w := make([]int, k)
				sum := 0
				for x := range w {
					w[x] = 1 + int(g.next()%3)
					sum += w[x]
				}
				cs = append(cs, Con{T: "ge", L: l, W: w, K: 1 + int(g.next()%uint64(sum))})
				continue
			}
			card := 1
			if g.next()%3 != 0 {
				card = 1 + int(g.next()%uint64(k))
			}
			cs = append(cs, Con{T: "atl", L: l, K: card})
		}
		name := tag // (the seed index is part of the case, not of the family name: evidence stays small)
		if !yield(name, Prob{Front: "pb", N: n, Cs: cpCons(cs...)}) {
			return false
		}
		for i := range cs {
			g2 := append(cpCons(cs[:i]...), cpCons(cs[i+1:]...)...)
			if !yield(name+"-del", Prob{Front: "pb", N: n, Cs: g2}) {
				return false
			}
			for dk := -1; dk <= 1; dk += 2 {
				g2 = cpCons(cs...)
				g2[i].K += dk
				if g2[i].K < 1 || (!weighted && g2[i].K > len(g2[i].L)) {
					continue
				}
				if !yield(name+"-deg", Prob{Front: "pb", N: n, Cs: g2}) {
					return false
				}
			}
			for j := range cs[i].L {
				g2 = cpCons(cs...)
				g2[i].L[j] = -g2[i].L[j]
				if !yield(name+"-flip", Prob{Front: "pb", N: n, Cs: g2}) {
					return false
				}
			}
		}
	}
	return true
}
