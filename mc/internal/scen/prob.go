package scen

import (
	"fmt"
	"strings"

	"github.com/crillab/gophersat/solver"

	"verifmc/internal/tt"
)

// Con is one constraint as the caller writes it, tagged with the public constructor used.
//
//	cl    clause (CNF front ends)                      L
//	card  CardConstr{Lits:L, AtLeast:K}                L K
//	al1   AtLeast1(L...)   am1 AtMost1(L...)   ex1 Exactly1(L...)
//	prop  PropClause(L...) atl AtLeast(L,K)    atm AtMost(L,K)
//	ge    GtEq(L,W,K)      le  LtEq(L,W,K)     eq  Eq(L,W,K)
type Con struct {
	T string `json:"t"`
	L []int  `json:"l"`
	W []int  `json:"w,omitempty"`
	K int    `json:"k,omitempty"`
}

// Prob is a problem as the caller writes it, with the front end used to build it.
type Prob struct {
	Front string `json:"front"` // slice | slicenb | dimacs | card | pb | opb
	N     int    `json:"n"`
	Decl  int    `json:"decl,omitempty"`
	Cs    []Con  `json:"cs"`
	CostL []int  `json:"costl,omitempty"`
	CostW []int  `json:"costw,omitempty"` // nil with CostL set: all weights 1 (nil passed to SetCostFunc)
}

func negAll(l []int) []int {
	r := make([]int, len(l))
	for i, x := range l {
		r[i] = -x
	}
	return r
}

func negW(w []int) []int {
	r := make([]int, len(w))
	for i, x := range w {
		r[i] = -x
	}
	return r
}

// ref returns the reference semantics of one constraint (integer arithmetic, as written).
func (c Con) ref() []tt.Constr {
	cp := func(x []int) []int { return append([]int{}, x...) }
	switch c.T {
	case "cl", "al1", "prop":
		return []tt.Constr{{Lits: cp(c.L), K: 1}}
	case "card", "atl":
		return []tt.Constr{{Lits: cp(c.L), K: c.K}}
	case "am1":
		return []tt.Constr{{Lits: negAll(c.L), K: len(c.L) - 1}}
	case "ex1":
		return []tt.Constr{{Lits: cp(c.L), K: 1}, {Lits: negAll(c.L), K: len(c.L) - 1}}
	case "atm":
		return []tt.Constr{{Lits: negAll(c.L), K: len(c.L) - c.K}}
	case "ge":
		return []tt.Constr{{Lits: cp(c.L), Coefs: cp(c.W), K: c.K}}
	case "le":
		return []tt.Constr{{Lits: cp(c.L), Coefs: negW(c.W), K: -c.K}}
	case "eq":
		return []tt.Constr{{Lits: cp(c.L), Coefs: cp(c.W), K: c.K}, {Lits: cp(c.L), Coefs: negW(c.W), K: -c.K}}
	}
	panic("bad constraint tag " + c.T)
}

// Ref returns the reference formula.
func (p Prob) Ref() []tt.Constr {
	var r []tt.Constr
	for _, c := range p.Cs {
		r = append(r, c.ref()...)
	}
	return r
}

// MaxVar is the largest variable written by the caller (constraints and cost).
func (p Prob) MaxVar() int {
	m := tt.MaxVar(p.Ref())
	for _, l := range p.CostL {
		if l < 0 {
			l = -l
		}
		if l > m {
			m = l
		}
	}
	return m
}

func (p Prob) cnf() [][]int {
	f := make([][]int, len(p.Cs))
	for i, c := range p.Cs {
		f[i] = append([]int{}, c.L...)
	}
	return f
}

// OPB renders the problem in the OPB syntax (one statement per line).
func (p Prob) OPB() string {
	var sb strings.Builder
	term := func(w, l int) string {
		if l < 0 {
			return fmt.Sprintf("%+d ~x%d", w, -l)
		}
		return fmt.Sprintf("%+d x%d", w, l)
	}
	fmt.Fprintf(&sb, "* #variable= %d #constraint= %d\n", p.N, len(p.Cs))
	if p.CostL != nil {
		sb.WriteString("min:")
		for i, l := range p.CostL {
			w := 1
			if p.CostW != nil {
				w = p.CostW[i]
			}
			sb.WriteString(" " + term(w, l))
		}
		sb.WriteString(" ;\n")
	}
	for _, c := range p.Cs {
		var ts []string
		for i, l := range c.L {
			w := 1
			if c.W != nil {
				w = c.W[i]
			}
			ts = append(ts, term(w, l))
		}
		rel := ">="
		if c.T == "eq" {
			rel = "="
		}
		fmt.Fprintf(&sb, "%s %s %d ;\n", strings.Join(ts, " "), rel, c.K)
	}
	return sb.String()
}

// Build constructs the solver.Problem through the public API. Fresh slices are handed to
// every constructor (they mutate their arguments). It may panic; callers use core.Safely.
func (p Prob) Build() (*solver.Problem, error) {
	cp := func(x []int) []int {
		if x == nil {
			return nil
		}
		return append([]int{}, x...)
	}
	var pb *solver.Problem
	var err error
	switch p.Front {
	case "slice":
		pb = solver.ParseSlice(p.cnf())
	case "slicenb":
		pb = solver.ParseSliceNb(p.cnf(), p.Decl)
	case "dimacs":
		pb, err = solver.ParseCNF(strings.NewReader(dimacs(p.cnf(), p.Decl)))
	case "card":
		var cs []solver.CardConstr
		for _, c := range p.Cs {
			switch c.T {
			case "card":
				cs = append(cs, solver.CardConstr{Lits: cp(c.L), AtLeast: c.K})
			case "al1", "cl":
				cs = append(cs, solver.AtLeast1(cp(c.L)...))
			case "am1":
				cs = append(cs, solver.AtMost1(cp(c.L)...))
			case "ex1":
				cs = append(cs, solver.Exactly1(cp(c.L)...)...)
			default:
				panic("constraint " + c.T + " not expressible in the cardinality front end")
			}
		}
		pb = solver.ParseCardConstrs(cs)
	case "pb", "pb2":
		// front "pb2": the caller keeps its constraint values: equal constraints of the list are the SAME PBConstr
		// value (slices shared), and the list is parsed twice, the second result being the one used
		var cs []solver.PBConstr
		made := map[string][]solver.PBConstr{}
		for _, c := range p.Cs {
			key := fmt.Sprint(c)
			if p.Front == "pb2" {
				if old, ok := made[key]; ok {
					cs = append(cs, old...)
					continue
				}
			}
			before := len(cs)
			switch c.T {
			case "prop", "cl":
				cs = append(cs, solver.PropClause(cp(c.L)...))
			case "atl", "card":
				cs = append(cs, solver.AtLeast(cp(c.L), c.K))
			case "atm":
				cs = append(cs, solver.AtMost(cp(c.L), c.K))
			case "ge":
				cs = append(cs, solver.GtEq(cp(c.L), cp(c.W), c.K))
			case "le":
				cs = append(cs, solver.LtEq(cp(c.L), cp(c.W), c.K))
			case "eq":
				cs = append(cs, solver.Eq(cp(c.L), cp(c.W), c.K)...)
			default:
				panic("constraint " + c.T + " not expressible in the PB front end")
			}
			made[key] = cs[before:len(cs):len(cs)]
		}
		if p.Front == "pb2" {
			solver.ParsePBConstrs(cs)
		}
		pb = solver.ParsePBConstrs(cs)
	case "opb":
		pb, err = solver.ParseOPB(strings.NewReader(p.OPB()))
	default:
		panic("bad front " + p.Front)
	}
	if err != nil {
		return nil, err
	}
	if p.CostL != nil && p.Front != "opb" {
		lits := make([]solver.Lit, len(p.CostL))
		for i, l := range p.CostL {
			lits[i] = solver.IntToLit(int32(l))
		}
		pb.SetCostFunc(lits, cp(p.CostW))
	}
	return pb, nil
}

// Declared is the number of variables the caller declared: for the CNF front ends the
// declared count; for the constraint front ends the largest variable written.
func (p Prob) Declared() int {
	mv := p.MaxVar()
	switch p.Front {
	case "slicenb", "dimacs":
		if p.Decl > mv {
			return p.Decl
		}
	}
	return mv
}

func cnfProb(front string, f [][]int, n, decl int) Prob {
	p := Prob{Front: front, N: n, Decl: decl}
	for _, c := range f {
		p.Cs = append(p.Cs, Con{T: "cl", L: append([]int{}, c...)})
	}
	return p
}

// evalStructural reads a parsed solver.Problem through its exported fields and accessors
// only (Units, Clauses[i].Len/Get/Weight/Cardinality, Status, NbVars) and returns its
// model set over n variables, without running the solver.
func evalStructural(pb *solver.Problem, n int) (tt.Set, error) {
	if pb.Status == solver.Unsat {
		return tt.Empty(n), nil
	}
	if pb.NbVars > n {
		return tt.Set{}, fmt.Errorf("problem has %d variables, reference %d", pb.NbVars, n)
	}
	var f []tt.Constr
	for _, u := range pb.Units {
		f = append(f, tt.Clause(int(u.Int())))
	}
	for _, c := range pb.Clauses {
		k := tt.Constr{K: c.Cardinality()}
		pbc := c.PseudoBoolean()
		for i := 0; i < c.Len(); i++ {
			k.Lits = append(k.Lits, int(c.Get(i).Int()))
			if pbc {
				k.Coefs = append(k.Coefs, c.Weight(i))
			}
		}
		f = append(f, k)
	}
	if tt.MaxVar(f) > n {
		return tt.Set{}, fmt.Errorf("problem mentions variable %d, reference has %d", tt.MaxVar(f), n)
	}
	return tt.Models(n, f), nil
}
