package scen

import (
	"fmt"
	"strconv"
	"strings"
)

// Independent reverse-unit-propagation checker. Clauses are literal sets; naive
// propagation to fixpoint; no deletion information. Shares no code with gophersat.

type rupDB struct {
	n       int
	clauses [][]int
}

func newRupDB(n int, f [][]int) *rupDB {
	db := &rupDB{n: n}
	for _, c := range f {
		db.add(c)
	}
	return db
}

func (db *rupDB) add(c []int) {
	// store as a set, drop tautologies
	seen := map[int]bool{}
	var s []int
	for _, l := range c {
		if seen[-l] {
			return
		}
		if !seen[l] {
			seen[l] = true
			s = append(s, l)
		}
		if l > db.n {
			db.n = l
		}
		if -l > db.n {
			db.n = -l
		}
	}
	db.clauses = append(db.clauses, s)
}

// propagate assigns the given literals and propagates; returns true on conflict.
func (db *rupDB) conflictUnder(assume []int) bool {
	val := make([]int8, db.n+1) // 0 unknown, 1 true, -1 false
	set := func(l int) bool {   // returns false on contradiction
		v, s := l, int8(1)
		if l < 0 {
			v, s = -l, -1
		}
		if v >= len(val) {
			nv := make([]int8, v+1)
			copy(nv, val)
			val = nv
		}
		if val[v] == -s {
			return false
		}
		val[v] = s
		return true
	}
	for _, l := range assume {
		if !set(l) {
			return true
		}
	}
	litVal := func(l int) int8 {
		v := l
		if v < 0 {
			v = -v
		}
		if v >= len(val) {
			return 0
		}
		if l > 0 {
			return val[v]
		}
		return -val[v]
	}
	for changed := true; changed; {
		changed = false
		for _, c := range db.clauses {
			unk, unkLit, sat := 0, 0, false
			for _, l := range c {
				switch litVal(l) {
				case 1:
					sat = true
				case 0:
					unk++
					unkLit = l
				}
				if sat {
					break
				}
			}
			if sat {
				continue
			}
			if unk == 0 {
				return true
			}
			if unk == 1 {
				if !set(unkLit) {
					return true
				}
				changed = true
			}
		}
	}
	return false
}

// isRUP tells whether clause c follows from the database by unit propagation.
func (db *rupDB) isRUP(c []int) bool {
	neg := make([]int, 0, len(c))
	seen := map[int]bool{}
	for _, l := range c {
		if seen[-l] {
			return true // tautology
		}
		seen[l] = true
		neg = append(neg, -l)
	}
	return db.conflictUnder(neg)
}

// parseCertLine parses "l1 l2 ... 0" (the final 0 is optional for robustness).
func parseCertLine(line string) ([]int, error) {
	var c []int
	for _, f := range strings.Fields(line) {
		v, err := strconv.Atoi(f)
		if err != nil {
			return nil, fmt.Errorf("certificate line %q: %v", line, err)
		}
		if v == 0 {
			break
		}
		c = append(c, v)
	}
	return c, nil
}
