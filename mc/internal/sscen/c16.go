package sscen

import (
	"encoding/json"
	"fmt"

	"github.com/crillab/gophersat/vsched"

	"verifmc/internal/conc"
	"verifmc/internal/core"
	"verifmc/internal/scen"
)

// C16 — independent solver instances do not interfere; calls are race free.
// (a) interference: k data-independent tasks as concurrent threads, every schedule within the
// preemption bound; each thread's complete observation must equal its observation when run alone.
// (b) races inside one call: UnsatSubset, Optimal/Enumerate with a consumer, WCNF Optimal.
// The free-running -race pass (c) is cmd/mcrace, run by run.sh after this exploration.

type C16Case struct {
	Tasks  []conc.Task      `json:"tasks,omitempty"`
	Stream *conc.StreamCase `json:"stream,omitempty"`
}

type c16 struct{}

func (c16) ID() string    { return "C16" }
func (c16) Level() string { return "model_checking" }
func (c16) Rule() string {
	return "cases = (a) every ordered pair (thorough: also triples) of data-independent tasks from a menu chosen to collide on anything global - Solve with the learned-clause trace observed through the certificate channel on conflict-producing formulas, CountModels, Optimal, Solve with cutting planes on the clausal pigeonhole problem PHP(5,4) under a small learned-constraint limit (learned PB constraints get deleted during the run), maxsat.Solve, explain.MUS, explain.UnsatSubset, bf.Solve on a CNF-shaped and on a non-CNF formula with an exactly-one group (auxiliary variables) - run as concurrent threads; (b) single calls that start goroutines internally (UnsatSubset, Solver.Optimal and Enumerate with a consumer, WCNF Optimal with its forwarder). ALL schedules with at most 2 preemptions (3 thorough) are enumerated under the cooperative scheduler (for the task pairs, whose threads block on every certificate line, additionally at most 5 (6) non-default choices in total, free switches at blocking points included); scheduling points: thread start/exit, goroutine creation, every channel operation, every access to a package-level variable that is written anywhere in its package or to a local captured by a go-function (found by the rewriter from /repo's working tree) and every statement of the functions that touch one. Oracle on every schedule: each thread's semantic observation (verdict, validity of its model, count, optimum, validity/minimality of its MUS) equals its observation when run alone (the exact model, learned-clause trace and statistics are compared too, for information only); no happens-before race on the instrumented variables; no deadlock, send on closed, double close or panic. (c) the same bodies run free under the Go race detector (cmd/mcrace; sampling, reported separately in the evidence). Non-trivial = the case has at least 2 schedules."
}
func (c16) Assumptions() []string {
	return []string{"the exhaustive part sees races on instrumented variables only (package-level variables and go-captured locals); races on other memory are left to the differential oracle and to the free-running race-detector pass, which samples schedules", "Verbose output is off (the statement excludes it)"}
}
func (c16) Decode(raw json.RawMessage) (core.Case, error) {
	var c C16Case
	err := json.Unmarshal(raw, &c)
	return c, err
}

func taskMenu(seed int64, tier string) []conc.Task {
	php32 := [][]int{{1, 2}, {3, 4}, {5, 6}, {-1, -3}, {-1, -5}, {-3, -5}, {-2, -4}, {-2, -6}, {-4, -6}}
	par3 := [][]int{{1, 2, 3}, {1, -2, -3}, {-1, 2, -3}, {-1, -2, 3}, {-1, -2, -3}, {1, 2, -3}, {1, -2, 3}, {-1, 2, 3}}
	sat5 := [][]int{{1, 2}, {-1, 3}, {-2, -3, 4}, {-4, 5}, {2, -5}, {-1, -5}}
	two := [][]int{{1, 2}, {-1, 2}, {1, -2}}
	menu := []conc.Task{
		{Kind: "solve-cert", F: php32, N: 6},
		{Kind: "solve-cert", F: sat5, N: 5},
		{Kind: "count", F: sat5, N: 5},
		{Kind: "count", F: two, N: 3},
		{Kind: "optimal", F: sat5, N: 5, Cost: []int{1, 2, 3, 4, 5}},
		{Kind: "maxsat", F: php32, N: 6},
		{Kind: "mus", F: php32, N: 6},
		{Kind: "subset", F: par3, N: 3},
		{Kind: "bf", F: sat5, N: 5},
		{Kind: "bf-dnf", F: two, N: 3},
		{Kind: "solve-cp", N: 4},
	}
	if tier == "thorough" {
		menu = append(menu, conc.Task{Kind: "solve-cert", F: par3, N: 3})
	}
	return menu
}

func (c16) Enumerate(tier string, seed int64, yield func(string, core.Case) bool) {
	menu := taskMenu(seed, tier)
	for i := range menu {
		for j := range menu {
			if !yield("pairs", C16Case{Tasks: []conc.Task{menu[i], menu[j]}}) {
				return
			}
		}
	}
	if tier == "thorough" {
		for i := 0; i < 2; i++ {
			for j := range menu {
				for k := j; k < len(menu); k += 2 {
					if !yield("triples", C16Case{Tasks: []conc.Task{menu[i], menu[j], menu[k]}}) {
						return
					}
				}
			}
		}
	}
	// (b) single calls with internal goroutines
	ok := scen.FamS3(2, 3, func(f [][]int, n int) bool {
		if len(f) < 2 {
			return true
		}
		if !yield("unsat-subset", C16Case{Tasks: []conc.Task{{Kind: "subset", F: f, N: n}}}) {
			return false
		}
		if len(f) == 2 {
			sc := conc.StreamCase{Kind: "optimal", F: f, N: n, Cost: []int{1, 2, 3}, Cap: 0}
			se := conc.StreamCase{Kind: "enumerate", F: f, N: n, Cap: 1}
			return yield("optimal-stream", C16Case{Stream: &sc}) && yield("enumerate-stream", C16Case{Stream: &se})
		}
		return true
	})
	if !ok {
		return
	}
	scen.FamM(seed, tier, func(name string, f [][]int, n int) bool {
		if n > 12 {
			return true
		}
		return yield("unsat-subset-M", C16Case{Tasks: []conc.Task{{Kind: "subset", F: f, N: n}}})
	})
}

func (c16) Exec(cc core.Case, r *core.Rec) []core.Failure {
	c := cc.(C16Case)
	bound := 2
	if r.Tier == "thorough" {
		bound = 3
	}
	var fails []core.Failure
	if c.Stream != nil {
		var st conc.Stream
		stats := Explore(bound, 20000, r, r.ReplayChoices, func() { st = conc.RunStream(*c.Stream) }, func(e Exec) bool {
			for _, f := range eventFailures("call/"+c.Stream.Kind, e.Sched) {
				f.Choices = append([]int{}, e.Choices...)
				fails = append(fails, f)
			}
			if len(fails) == 0 {
				for _, f := range judgeStream(*c.Stream, st) {
					f.Sig = "call/" + f.Sig
					f.Choices = append([]int{}, e.Choices...)
					fails = append(fails, f)
				}
			}
			st = conc.Stream{}
			return len(fails) == 0
		})
		countExplore(r, stats)
		if stats.Schedules >= 2 {
			r.NonTrivial()
		}
		return fails
	}
	// solo observations (natively, no scheduler installed)
	solo := make([]string, len(c.Tasks))
	soloRaw := make([]string, len(c.Tasks))
	for i, t := range c.Tasks {
		vsched.ResetGlobals() // every run starts from the initial package-level state
		solo[i], soloRaw[i] = t.RunRaw()
	}
	var got, gotRaw []string
	DevBound = 5 // threads that block on every certificate line: bound free switches as well
	if r.Tier == "thorough" {
		DevBound = 6
	}
	defer func() { DevBound = 0 }()
	stats := Explore(bound, 2000000, r, r.ReplayChoices, func() { got, gotRaw = conc.RunTogether(c.Tasks) }, func(e Exec) bool {
		kinds := ""
		for _, t := range c.Tasks {
			kinds += t.Kind + "+"
		}
		for _, f := range eventFailures("together", e.Sched) {
			f.Choices = append([]int{}, e.Choices...)
			fails = append(fails, f)
		}
		if len(fails) == 0 {
			for i := range c.Tasks {
				if i < len(got) && got[i] != solo[i] {
					fails = append(fails, core.Failure{Sig: "together/observation-differs-from-solo-run", Choices: append([]int{}, e.Choices...),
						Detail: fmt.Sprintf("task %d (%s) of %s observed %q, alone it observes %q", i, c.Tasks[i].Kind, kinds, got[i], solo[i])})
					break
				}
			}
		}
		for i := range c.Tasks {
			if i < len(gotRaw) && gotRaw[i] != soloRaw[i] {
				// exact model / learned-clause trace / statistics differ although the semantic
				// observation is the same: not required by the statement, counted for information
				r.Count("raw_observation_differs_from_solo_run", 1)
				break
			}
		}
		r.Outcome(kinds)
		got, gotRaw = nil, nil
		return len(fails) == 0
	})
	countExplore(r, stats)
	if stats.Schedules >= 2 {
		r.NonTrivial()
	}
	if stats.SampleSched != nil {
		r.Sample("tasks-with-schedule", 2, map[string]interface{}{"case": c, "schedule": stats.SampleSched})
	}
	return fails
}

func init() { core.Register(c16{}) }
