package sscen

import (
	"encoding/json"
	"fmt"

	"github.com/crillab/gophersat/solver"

	"verifmc/internal/conc"
	"verifmc/internal/core"
	"verifmc/internal/scen"
	"verifmc/internal/tt"
)

// C20 — the stream of intermediate results is valid, improving and always terminated.

type c20 struct{}

func (c20) ID() string    { return "C20" }
func (c20) Level() string { return "model_checking" }
func (c20) Rule() string {
	return "cases = producer/consumer systems on the real code: Solver.Optimal with a result channel (every CNF of S3 with <=2 clauses and of T2 with <=1 clause, with no cost function, a unit-weight and a weighted cost function, so that streams have 1..4 results incl. Unsat), Solver.Enumerate with a model channel (0..8 models), maxsat WCNF Optimal (producer + internal forwarder goroutine + consumer) x channel capacity 0,1,2. For every case ALL schedules with at most 2 preemptions (3 in thorough) are enumerated under the cooperative scheduler (scheduling points: thread start/exit, every goroutine creation, channel send/receive/close in library and harness, instrumented shared-variable accesses). Oracle on every schedule: no deadlock, no send on closed channel, no double close, no panic, no happens-before race; channel closed when the consumer stops and already closed at the moment the library call returns; every delivered result is a model with its true cost (truth table), costs strictly decrease, last delivered == returned, returned cost is the minimum; enumeration delivers each model exactly once and the count matches. Non-trivial = the stream has at least 2 values and the case has at least 2 schedules."
}
func (c20) Assumptions() []string {
	return []string{"the cooperative scheduler models Go channel semantics (FIFO buffer, rendezvous, close) and the happens-before edges of the Go memory model for channel operations", "unsynchronised accesses to memory that the rewriter does not instrument are left to the free-running -race pass of C16", "consumers follow the documented contract (drain until close)"}
}
func (c20) Decode(raw json.RawMessage) (core.Case, error) {
	var c conc.StreamCase
	err := json.Unmarshal(raw, &c)
	return c, err
}

func (c20) Enumerate(tier string, seed int64, yield func(string, core.Case) bool) {
	caps := []int{0, 1, 2}
	costs := []struct{ l, w []int }{{nil, nil}, {[]int{1, 2, 3}, nil}, {[]int{-1, 2, -3}, []int{2, 1, 3}}}
	ok := scen.FamS3(2, 2, func(f [][]int, n int) bool {
		for _, cf := range costs {
			for _, cp := range caps {
				if !yield("optimal", conc.StreamCase{Kind: "optimal", F: f, N: n, Cost: cf.l, CostW: cf.w, Cap: cp}) {
					return false
				}
			}
		}
		for _, cp := range caps {
			if !yield("enumerate", conc.StreamCase{Kind: "enumerate", F: f, N: n, Cap: cp}) {
				return false
			}
		}
		return true
	})
	if !ok {
		return
	}
	ok = scen.FamT2(1, -1, func(f [][]int, n int) bool {
		for _, cp := range caps {
			if !yield("optimal-T2", conc.StreamCase{Kind: "optimal", F: f, N: n, Cost: []int{1, 2}, Cap: cp}) ||
				!yield("enumerate-T2", conc.StreamCase{Kind: "enumerate", F: f, N: n, Cap: cp}) {
				return false
			}
		}
		return true
	})
	if !ok {
		return
	}
	scen.EnumWCNF(tier, func(text string, n int, hard, soft [][]int, softw []int) bool {
		cs := caps[:2]
		if len(hard)+len(soft) > 2 && tier != "thorough" {
			if n != 2 {
				return true
			}
			cs = caps[1:2] // three-clause texts: buffered channel only in quick
		}
		for _, cp := range cs {
			if !yield("wcnf", conc.StreamCase{Kind: "wcnf", Text: text, N: n, Hard: hard, Soft: soft, SoftW: softw, Cap: cp}) {
				return false
			}
		}
		return true
	})
}

func clausesTT(f [][]int) []tt.Constr {
	r := make([]tt.Constr, len(f))
	for i, c := range f {
		r[i] = tt.Clause(c...)
	}
	return r
}

func judgeStream(c conc.StreamCase, st conc.Stream) []core.Failure {
	var fs []core.Failure
	add := func(kind, detail string) { fs = append(fs, core.Failure{Sig: c.Kind + "/" + kind, Detail: detail}) }
	if st.Panic != "" {
		add("panic", st.Panic)
		return fs
	}
	if !st.Closed {
		add("channel-not-closed", "the consumer never saw the channel closed")
		return fs
	}
	if !st.ClosedAtReturn {
		add("channel-open-at-return", "the library call returned while the channel it was given was still open (closed only later, by a goroutine that outlived the call)")
		return fs
	}
	switch c.Kind {
	case "enumerate":
		models := tt.Models(c.N, clausesTT(c.F))
		seen := tt.Empty(c.N)
		for _, m := range st.Models {
			if len(m) != c.N {
				add("model-length", fmt.Sprint(m))
				return fs
			}
			a := tt.FromBools(m)
			if !models.Has(a) {
				add("delivered-non-model", fmt.Sprint(m))
				return fs
			}
			if seen.Has(a) {
				add("duplicate-model", fmt.Sprint(m))
				return fs
			}
			seen.Add(a)
		}
		if len(st.Models) != models.Count() || st.Count != models.Count() {
			add("wrong-count", fmt.Sprintf("delivered %d, returned %d, the problem has %d models", len(st.Models), st.Count, models.Count()))
		}
		return fs
	}
	// optimisation streams
	var models tt.Set
	costOf := func(a uint32) int { return 0 }
	if c.Kind == "optimal" {
		models = tt.Models(c.N, clausesTT(c.F))
		if c.Cost != nil {
			costOf = func(a uint32) int { return tt.Cost(c.Cost, c.CostW, a) }
		}
	} else {
		models = tt.Models(c.N, clausesTT(c.Hard))
		costOf = func(a uint32) int {
			s := 0
			for i, cl := range c.Soft {
				if !tt.Clause(cl...).Holds(a) {
					s += c.SoftW[i]
				}
			}
			return s
		}
	}
	best, sat := 0, false
	models.Each(func(a uint32) {
		if x := costOf(a); !sat || x < best {
			best, sat = x, true
		}
	})
	if len(st.Results) == 0 {
		add("empty-stream", "nothing was delivered before the channel was closed")
		return fs
	}
	for i, x := range st.Results {
		if !sat {
			if x.Status != solver.Unsat {
				add("result-on-unsatisfiable", fmt.Sprint(x))
				return fs
			}
			continue
		}
		if x.Status != solver.Sat {
			add("unsat-on-satisfiable", fmt.Sprint(x))
			return fs
		}
		if len(x.Model) != c.N {
			add("model-length", fmt.Sprintf("result %d has %d values, %d variables", i, len(x.Model), c.N))
			return fs
		}
		a := tt.FromBools(x.Model)
		if !models.Has(a) {
			add("delivered-non-model", fmt.Sprint(x))
			return fs
		}
		if costOf(a) != x.Weight {
			add("cost-mismatch", fmt.Sprintf("result %v costs %d", x, costOf(a)))
			return fs
		}
		if i > 0 && x.Weight >= st.Results[i-1].Weight {
			add("not-decreasing", fmt.Sprintf("%d then %d", st.Results[i-1].Weight, x.Weight))
			return fs
		}
	}
	last := st.Results[len(st.Results)-1]
	if last.Status != st.Returned.Status || last.Weight != st.Returned.Weight || fmt.Sprint(last.Model) != fmt.Sprint(st.Returned.Model) {
		add("last-differs-from-returned", fmt.Sprintf("last delivered %v, returned %v", last, st.Returned))
		return fs
	}
	if sat && last.Weight != best {
		add("not-optimal", fmt.Sprintf("final cost %d, minimum %d", last.Weight, best))
	}
	return fs
}

func (c20) Exec(cc core.Case, r *core.Rec) []core.Failure {
	c := cc.(conc.StreamCase)
	bound := 2
	if r.Tier == "thorough" {
		bound = 3
	}
	var fails []core.Failure
	first := ""
	var st conc.Stream
	stats := Explore(bound, 20000, r, r.ReplayChoices, func() { st = conc.RunStream(c) }, func(e Exec) bool {
		add := func(fs []core.Failure) {
			for _, f := range fs {
				f.Choices = append([]int{}, e.Choices...)
				fails = append(fails, f)
			}
		}
		if e.Diverged {
			add([]core.Failure{{Sig: "harness/schedule-divergence", Detail: "a recorded choice was out of range"}})
			return false
		}
		add(eventFailures(c.Kind, e.Sched))
		if len(fails) == 0 {
			add(judgeStream(c, st))
		}
		seq := fmt.Sprint(st.Results, st.Models, st.Count)
		if first == "" {
			first = seq
		} else if seq != first {
			// not an oracle (the statement does not require the same stream under every schedule,
			// only that every stream is valid): counted for information
			r.Count("schedules_with_a_different_value_sequence", 1)
		}
		r.Outcome(fmt.Sprintf("%s/values=%d", c.Kind, min3(len(st.Results)+len(st.Models))))
		st = conc.Stream{}
		return len(fails) == 0
	})
	countExplore(r, stats)
	if stats.Schedules >= 2 && first != "" {
		r.NonTrivial()
	}
	if stats.SampleSched != nil {
		r.Sample("stream-with-schedule", 2, map[string]interface{}{"case": c, "schedule": stats.SampleSched})
	}
	return fails
}

func min3(x int) int {
	if x > 3 {
		return 3
	}
	return x
}

func init() { core.Register(c20{}) }
