// Package sscen holds the schedule-exploration scenarios (E3): C16 and C20. It is compiled only
// into cmd/mcs, which is built with `-overlay` (library rewritten to the vsched shim) and the
// build tags verif and e3.
package sscen

import (
	"fmt"

	"github.com/crillab/gophersat/vsched"

	"verifmc/internal/core"
)

type step struct {
	n              int
	runningEnabled bool
	chosen         int
}

// Exec is one explored execution.
type Exec struct {
	Sched    *vsched.Sched
	Choices  []int
	Diverged bool
}

// ExploreStats summarises one exploration.
type ExploreStats struct {
	Schedules   int
	Steps       int
	MaxSteps    int
	Capped      bool
	Preemptive  int // schedules with at least one preemption
	SampleSched []int
}

// Explore enumerates all schedules of body with at most `bound` preemptions (depth-first,
// stateless: every schedule re-runs body from scratch). visit is called after each execution and
// returns false to stop. replay != nil runs exactly that schedule.
// DevBound additionally limits the number of non-default choices of a schedule, free switches at
// blocking points included (delay bounding); 0 means no limit. With several threads that block
// often, free switches alone make the schedule space exponential.
var DevBound = 0

func Explore(bound, maxSched int, r *core.Rec, replay []int, body func(), visit func(e Exec) bool) ExploreStats {
	var st ExploreStats
	stop := false
	run := func(prefix []int) ([]step, Exec) {
		var trace []step
		div := false
		choose := func(enabled []int, running int, runningEnabled bool) int {
			i := len(trace)
			ch := 0
			if i < len(prefix) {
				ch = prefix[i]
				if ch >= len(enabled) {
					div = true
					ch = 0
				}
			}
			trace = append(trace, step{len(enabled), runningEnabled, ch})
			return ch
		}
		var onState func(uint64)
		if r != nil {
			onState = r.State
		}
		s := vsched.Run(choose, onState, body)
		st.Schedules++
		st.Steps += len(trace)
		if len(trace) > st.MaxSteps {
			st.MaxSteps = len(trace)
		}
		if r != nil {
			r.Execution()
			r.Transition(len(trace))
		}
		choices := make([]int, len(trace))
		pre := false
		for i, t := range trace {
			choices[i] = t.chosen
			if t.chosen > 0 && t.runningEnabled {
				pre = true
			}
		}
		if pre {
			st.Preemptive++
			if st.SampleSched == nil {
				st.SampleSched = choices
			}
		}
		return trace, Exec{Sched: s, Choices: choices, Diverged: div}
	}
	if replay != nil {
		_, e := run(replay)
		visit(e)
		return st
	}
	var rec func(prefix []int)
	rec = func(prefix []int) {
		if stop {
			return
		}
		if st.Schedules >= maxSched || (r != nil && st.Schedules&31 == 0 && r.Expired()) {
			st.Capped = true
			stop = true
			return
		}
		trace, e := run(prefix)
		if !visit(e) {
			stop = true
			return
		}
		pre, dev := 0, 0
		for i := 0; i < len(trace); i++ {
			if i >= len(prefix) {
				for alt := 1; alt < trace[i].n; alt++ {
					c := pre
					if trace[i].runningEnabled {
						c++
					}
					if c > bound || (DevBound > 0 && dev+1 > DevBound) {
						continue
					}
					np := make([]int, i+1)
					for k := 0; k < i; k++ {
						np[k] = trace[k].chosen
					}
					np[i] = alt
					rec(np)
					if stop {
						return
					}
				}
			}
			if trace[i].chosen > 0 {
				dev++
				if trace[i].runningEnabled {
					pre++
				}
			}
		}
	}
	rec([]int{})
	return st
}

func eventFailures(prefix string, s *vsched.Sched) []core.Failure {
	var fs []core.Failure
	seen := map[string]bool{}
	for _, e := range s.Events {
		if seen[e.Kind] {
			continue
		}
		seen[e.Kind] = true
		fs = append(fs, core.Failure{Sig: prefix + "/" + e.Kind, Detail: e.Detail})
	}
	return fs
}

func countExplore(r *core.Rec, st ExploreStats) {
	if st.Capped {
		r.Count(fmt.Sprintf("capped_at_%d_steps_per_schedule", st.MaxSteps/10*10), 1)
	}
	r.Count("schedules", int64(st.Schedules))
	r.Count("schedules_with_preemption", int64(st.Preemptive))
	if st.Capped {
		r.Count("capped_cases", 1)
	}
}

var _ = fmt.Sprint
