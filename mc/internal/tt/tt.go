// Package tt is the reference model used by every oracle: exact truth tables
// over a small number of variables. It shares no code with gophersat.
//
// An assignment over n variables is a uint32 mask: bit i set <=> variable i+1 true.
// A Set is a bitset over the 2^n assignments.
package tt

import "math/bits"

// Constr is sum_i Coefs[i]*[Lits[i] true] >= K. Coefs nil means all 1.
// Lits are DIMACS style non-zero integers. A literal may occur several times.
type Constr struct {
	Lits  []int `json:"l"`
	Coefs []int `json:"w,omitempty"`
	K     int   `json:"k"`
}

// Clause builds the constraint "at least one literal true".
func Clause(lits ...int) Constr { return Constr{Lits: append([]int{}, lits...), K: 1} }

// Copy returns a deep copy.
func (c Constr) Copy() Constr {
	r := Constr{Lits: append([]int{}, c.Lits...), K: c.K}
	if c.Coefs != nil {
		r.Coefs = append([]int{}, c.Coefs...)
	}
	return r
}

// CopyAll deep-copies a formula.
func CopyAll(f []Constr) []Constr {
	r := make([]Constr, len(f))
	for i := range f {
		r[i] = f[i].Copy()
	}
	return r
}

// LitTrue tells whether DIMACS literal l is true under assignment a.
func LitTrue(l int, a uint32) bool {
	if l > 0 {
		return a>>(uint(l)-1)&1 == 1
	}
	return a>>(uint(-l)-1)&1 == 0
}

// Holds evaluates c under a.
func (c Constr) Holds(a uint32) bool {
	s := 0
	for i, l := range c.Lits {
		if LitTrue(l, a) {
			if c.Coefs == nil {
				s++
			} else {
				s += c.Coefs[i]
			}
		}
	}
	return s >= c.K
}

// IsClause tells whether c is a plain disjunction.
func (c Constr) IsClause() bool {
	if c.K != 1 {
		return false
	}
	for _, w := range c.Coefs {
		if w != 1 {
			return false
		}
	}
	return true
}

// MaxVar returns the largest variable mentioned.
func MaxVar(f []Constr) int {
	m := 0
	for _, c := range f {
		for _, l := range c.Lits {
			if l < 0 {
				l = -l
			}
			if l > m {
				m = l
			}
		}
	}
	return m
}

// Set is a bitset over assignments of n variables.
type Set struct {
	N int
	W []uint64
}

var lowMasks = [6]uint64{
	0xAAAAAAAAAAAAAAAA, 0xCCCCCCCCCCCCCCCC, 0xF0F0F0F0F0F0F0F0,
	0xFF00FF00FF00FF00, 0xFFFF0000FFFF0000, 0xFFFFFFFF00000000,
}

func words(n int) int {
	if n <= 6 {
		return 1
	}
	return 1 << (uint(n) - 6)
}

func (s Set) tailMask() uint64 {
	if s.N >= 6 {
		return ^uint64(0)
	}
	return (uint64(1) << (uint(1) << uint(s.N))) - 1
}

// Full returns the set of all assignments over n variables.
func Full(n int) Set {
	s := Set{N: n, W: make([]uint64, words(n))}
	for i := range s.W {
		s.W[i] = ^uint64(0)
	}
	s.W[len(s.W)-1] &= s.tailMask()
	if n < 6 {
		s.W[0] &= s.tailMask()
	}
	return s
}

// Empty returns the empty set over n variables.
func Empty(n int) Set { return Set{N: n, W: make([]uint64, words(n))} }

// VarSet returns the set of assignments where variable v (1-based) is true.
func VarSet(n, v int) Set {
	s := Empty(n)
	if v > n {
		panic("tt: variable out of range")
	}
	if v <= 6 {
		for i := range s.W {
			s.W[i] = lowMasks[v-1]
		}
		s.W[len(s.W)-1] &= s.tailMask()
		if n < 6 {
			s.W[0] &= s.tailMask()
		}
		return s
	}
	bit := uint(v - 7)
	for i := range s.W {
		if i>>bit&1 == 1 {
			s.W[i] = ^uint64(0)
		}
	}
	return s
}

// LitSet returns the assignments where literal l is true.
func LitSet(n, l int) Set {
	if l > 0 {
		return VarSet(n, l)
	}
	return VarSet(n, -l).Not()
}

func (s Set) Not() Set {
	r := Empty(s.N)
	for i := range s.W {
		r.W[i] = ^s.W[i]
	}
	r.W[len(r.W)-1] &= r.tailMask()
	return r
}

func (s Set) And(o Set) Set {
	r := Empty(s.N)
	for i := range s.W {
		r.W[i] = s.W[i] & o.W[i]
	}
	return r
}

func (s Set) Or(o Set) Set {
	r := Empty(s.N)
	for i := range s.W {
		r.W[i] = s.W[i] | o.W[i]
	}
	return r
}

func (s Set) AndInPlace(o Set) {
	for i := range s.W {
		s.W[i] &= o.W[i]
	}
}

func (s Set) Equal(o Set) bool {
	if s.N != o.N {
		return false
	}
	for i := range s.W {
		if s.W[i] != o.W[i] {
			return false
		}
	}
	return true
}

// SubsetOf tells whether s ⊆ o.
func (s Set) SubsetOf(o Set) bool {
	for i := range s.W {
		if s.W[i]&^o.W[i] != 0 {
			return false
		}
	}
	return true
}

func (s Set) Count() int {
	c := 0
	for _, w := range s.W {
		c += bits.OnesCount64(w)
	}
	return c
}

func (s Set) IsEmpty() bool {
	for _, w := range s.W {
		if w != 0 {
			return false
		}
	}
	return true
}

func (s Set) Has(a uint32) bool { return s.W[a>>6]>>(a&63)&1 == 1 }

func (s Set) Add(a uint32) { s.W[a>>6] |= 1 << (a & 63) }

// First returns the smallest member, ok=false if empty.
func (s Set) First() (uint32, bool) {
	for i, w := range s.W {
		if w != 0 {
			return uint32(i*64 + bits.TrailingZeros64(w)), true
		}
	}
	return 0, false
}

// Each calls f for every member in increasing order.
func (s Set) Each(f func(a uint32)) {
	for i, w := range s.W {
		for w != 0 {
			b := bits.TrailingZeros64(w)
			f(uint32(i*64 + b))
			w &= w - 1
		}
	}
}

// ConstrSet returns the assignments over n variables satisfying c.
func ConstrSet(n int, c Constr) Set {
	if c.IsClause() {
		r := Empty(n)
		for _, l := range c.Lits {
			r = r.Or(LitSet(n, l))
		}
		return r
	}
	r := Empty(n)
	tot := uint32(1) << uint(n)
	for a := uint32(0); a < tot; a++ {
		if c.Holds(a) {
			r.Add(a)
		}
	}
	return r
}

// Models returns the assignments over n variables satisfying every constraint of f.
func Models(n int, f []Constr) Set {
	r := Full(n)
	for _, c := range f {
		r.AndInPlace(ConstrSet(n, c))
		if r.IsEmpty() {
			break
		}
	}
	return r
}

// Implied tells whether every model of f (over n variables) satisfies c.
func Implied(models Set, c Constr) bool {
	return models.SubsetOf(ConstrSet(models.N, c))
}

// Cost evaluates a linear cost sum w_i*[l_i true]; weights nil means 1.
func Cost(lits []int, weights []int, a uint32) int {
	s := 0
	for i, l := range lits {
		if LitTrue(l, a) {
			if weights == nil {
				s++
			} else {
				s += weights[i]
			}
		}
	}
	return s
}

// MinCost returns the minimum cost over the set (ok=false if the set is empty).
func MinCost(s Set, lits, weights []int) (best int, ok bool) {
	s.Each(func(a uint32) {
		c := Cost(lits, weights, a)
		if !ok || c < best {
			best, ok = c, true
		}
	})
	return
}

// FromBools converts a model slice (index i = variable i+1) to a mask. Extra
// positions beyond 32 are ignored by the caller's construction (n <= 24).
func FromBools(m []bool) uint32 {
	var a uint32
	for i, b := range m {
		if b {
			a |= 1 << uint(i)
		}
	}
	return a
}

// Project maps a set over n variables to the set over the first k variables
// (exists-quantifying the others).
func Project(s Set, k int) Set {
	r := Empty(k)
	mask := uint32(1)<<uint(k) - 1
	s.Each(func(a uint32) { r.Add(a & mask) })
	return r
}
