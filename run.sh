#!/bin/bash
# ./run.sh <Cxx> quick|thorough     run one property check (rebuilds from /repo's working tree)
# ./run.sh replay <file>            re-execute one replay artefact
# ./run.sh setup                    warm the build cache
# VERIF_REPO=<dir> selects another copy of crillab/gophersat (default /repo).
set -u
cd "$(dirname "$0")"
export GOFLAGS=-mod=mod GOPROXY=off GOSUMDB=off GOTOOLCHAIN=local
VERIF=$(pwd)
REPO=${VERIF_REPO:-/repo}
BIN=$VERIF/.bin
mkdir -p "$BIN" "$VERIF/.build"

build() { # $1 = output name, rest = extra go build flags
  local out=$1; shift
  local tag
  tag=$(echo "$REPO" | md5sum | cut -c1-8)
  local mod=$VERIF/.build/go.$tag.mod
  sed "s#=> /repo#=> $REPO#" "$VERIF/mc/go.mod" > "$mod"
  (cd "$VERIF/mc" && go build -modfile="$mod" -tags verif "$@" -o "$BIN/$out" ./cmd/mc) || { echo "ERROR build failed"; exit 2; }
}

case "${1:-}" in
  setup)
    build mc
    echo "setup ok"
    ;;
  replay)
    build mc
    exec "$BIN/mc" replay "$2"
    ;;
  C*)
    build mc
    exec "$BIN/mc" check "$1" "${2:-quick}"
    ;;
  *)
    echo "usage: $0 <Cxx> quick|thorough | replay <file> | setup"; exit 2;;
esac
