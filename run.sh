#!/bin/bash
# ./run.sh <Cxx> quick|thorough     run one property check (rebuilds from /repo's working tree)
# ./run.sh replay <file>            re-execute one replay artefact
# ./run.sh setup                    warm the build cache
# VERIF_REPO=<dir> selects another copy of crillab/gophersat (default /repo).
set -u
cd "$(dirname "$0")"
export GOFLAGS=-mod=mod GOPROXY=off GOSUMDB=off GOTOOLCHAIN=local
VERIF=$(pwd)
REPO=${VERIF_REPO:-/repo}
# evidence and replays go next to this script (a snapshot of /verif writes into the snapshot, never into /verif)
export VERIF_OUT=${VERIF_OUT:-$VERIF}
BIN=${VERIF_BIN:-$VERIF/.bin}
BUILD=${VERIF_BUILD:-$VERIF/.build}
mkdir -p "$BIN" "$BUILD"
# Everything one invocation builds or writes as scratch is private to it (suffix = tree tag + pid), so that
# concurrent invocations — also on different copies of the repository — never run each other's binaries.
TAG=$(echo "$REPO" | md5sum | cut -c1-8)
SFX=$TAG.$$
SCR=$BUILD/run.$SFX
mkdir -p "$SCR"
export VERIF_BUILD=$SCR
cleanup() { rm -rf "$SCR" "$BIN"/*."$SFX"; }
trap cleanup EXIT
CHILD=
# a TERM/INT sent to this script (e.g. by timeout(1)) is passed on to the driver and its worker processes
trap '[ -n "$CHILD" ] && { pkill -TERM -P "$CHILD"; kill -TERM "$CHILD"; } 2>/dev/null; exit 143' TERM INT
run() { "$@" & CHILD=$!; wait "$CHILD"; local rc=$?; CHILD=; return $rc; }
# leftovers of invocations that were killed hard (older than 3 hours)
find "$BIN" "$BUILD" -maxdepth 1 -mmin +180 \( -name 'mc*.*.*' -o -name 'gophersat.*' -o -name 'instr.*' -o -name 'run.*' \) -exec rm -rf {} + 2>/dev/null

build() { # $1 = output name, rest = extra go build flags
  local out=$1; shift
  MOD=$SCR/go.mod
  sed "s#=> /repo#=> $REPO#" "$VERIF/mc/go.mod" > "$MOD"
  cp "$VERIF/mc/go.sum" "$SCR/go.sum" 2>/dev/null
  (cd "$VERIF/mc" && go build -modfile="$MOD" -tags verif "$@" -o "$BIN/$out.$SFX" ./cmd/mc) || { echo "ERROR build failed"; exit 2; }
}

build_sched() { # schedule explorer: library rewritten through an overlay generated from $REPO
  MOD=$SCR/go.mod
  sed "s#=> /repo#=> $REPO#" "$VERIF/mc/go.mod" > "$MOD"
  cp "$VERIF/mc/go.sum" "$SCR/go.sum" 2>/dev/null
  (cd "$VERIF/tools/instr" && go build -o "$BIN/instr.$SFX" .) || { echo "ERROR build of instr failed"; exit 2; }
  local ov=$SCR/overlay
  rm -rf "$ov"; mkdir -p "$ov"
  "$BIN/instr.$SFX" -repo "$REPO" -out "$ov" -shim "$VERIF/shim/vsched" > "$ov/instr.log" 2>&1 || { cat "$ov/instr.log"; echo "ERROR instrumentation failed"; exit 2; }
  (cd "$VERIF/mc" && go build -modfile="$MOD" -tags "verif e3" -overlay "$ov/overlay.json" -o "$BIN/mcs.$SFX" ./cmd/mcs) || { echo "ERROR build of mcs failed"; exit 2; }
  export VERIF_INSTR_REPORT="$ov/report.json"
}

case "${1:-}" in
  setup)
    build mc
    build_sched
    echo "setup ok"
    ;;
  C20)
    build_sched
    run "$BIN/mcs.$SFX" check "$1" "${2:-quick}"; exit $?
    ;;
  C16)
    build_sched
    # (c) free-running net: same harness bodies, native build under the race detector
    (cd "$VERIF/mc" && go build -modfile="$MOD" -race -tags verif -o "$BIN/mcrace.$SFX" ./cmd/mcrace) || { echo "ERROR build of mcrace failed"; exit 2; }
    rounds=150; [ "${2:-quick}" = thorough ] && rounds=3000
    OUTD=${VERIF_OUT:-$VERIF}; mkdir -p "$OUTD/replays/C16"
    res=$SCR/race.json; log=$OUTD/replays/C16/race-detector-report.txt
    rm -f "$res"
    GORACE="halt_on_error=1" run timeout 1200 "$BIN/mcrace.$SFX" $rounds "${VERIF_SEED:-1}" "$res" 2> "$log"; rc=$?
    if [ $rc -eq 66 ] || grep -q "WARNING: DATA RACE" "$log"; then
      echo "{\"violation\":\"free-running/data-race\",\"replay\":\"$log\",\"rounds\":$rounds}" > "$res"
    elif [ $rc -eq 67 ] || grep -q "^MISMATCH task" "$log"; then
      echo "{\"violation\":\"free-running/observation-differs-from-solo-run\",\"replay\":\"$log\",\"rounds\":$rounds}" > "$res"
    elif [ $rc -eq 2 ] && grep -qE "^(panic:|fatal error:)" "$log"; then
      # the process died of a panic outside the harness bodies' recover (a goroutine started by the library)
      echo "{\"violation\":\"free-running/crash-in-library-goroutine\",\"replay\":\"$log\",\"rounds\":$rounds}" > "$res"
    elif [ $rc -ne 0 ]; then
      echo "ERROR race pass ended with status $rc"; tail -5 "$log"; exit 2
    else
      rm -f "$log"
    fi
    export VERIF_EXTRA_RESULT="$res"
    run "$BIN/mcs.$SFX" check "$1" "${2:-quick}"; exit $?
    ;;
  replay)
    if grep -qE '"property": *"C(16|20)"' "$2"; then
      build_sched
      run "$BIN/mcs.$SFX" replay "$2"; exit $?
    fi
    build mc
    run "$BIN/mc.$SFX" replay "$2"; exit $?
    ;;
  C19)
    build mc
    (cd "$VERIF/mc" && go build -modfile="$MOD" -tags verif -o "$BIN/gophersat.$SFX" github.com/crillab/gophersat) || { echo "ERROR build of gophersat failed"; exit 2; }
    export VERIF_GOPHERSAT_BIN="$BIN/gophersat.$SFX"
    run "$BIN/mc.$SFX" check "$1" "${2:-quick}"; exit $?
    ;;
  C*)
    build mc
    run "$BIN/mc.$SFX" check "$1" "${2:-quick}"; exit $?
    ;;
  *)
    echo "usage: $0 <Cxx> quick|thorough | replay <file> | setup"; exit 2;;
esac
