#!/bin/bash
# ./run.sh <Cxx> quick|thorough     run one property check (rebuilds from /repo's working tree)
# ./run.sh replay <file>            re-execute one replay artefact
# ./run.sh setup                    warm the build cache
# VERIF_REPO=<dir> selects another copy of crillab/gophersat (default /repo).
set -u
cd "$(dirname "$0")"
export GOFLAGS=-mod=mod GOPROXY=off GOSUMDB=off GOTOOLCHAIN=local
VERIF=$(pwd)
REPO=${VERIF_REPO:-/repo}
BIN=${VERIF_BIN:-$VERIF/.bin}
BUILD=${VERIF_BUILD:-$VERIF/.build}
export VERIF_BUILD=$BUILD
mkdir -p "$BIN" "$BUILD"

build() { # $1 = output name, rest = extra go build flags
  local out=$1; shift
  local tag
  tag=$(echo "$REPO" | md5sum | cut -c1-8)
  local mod=$BUILD/go.$tag.mod
  sed "s#=> /repo#=> $REPO#" "$VERIF/mc/go.mod" > "$mod"
  (cd "$VERIF/mc" && go build -modfile="$mod" -tags verif "$@" -o "$BIN/$out" ./cmd/mc) || { echo "ERROR build failed"; exit 2; }
}

build_sched() { # schedule explorer: library rewritten through an overlay generated from $REPO
  local tag
  tag=$(echo "$REPO" | md5sum | cut -c1-8)
  local mod=$BUILD/go.$tag.mod
  sed "s#=> /repo#=> $REPO#" "$VERIF/mc/go.mod" > "$mod"
  (cd "$VERIF/tools/instr" && go build -o "$BIN/instr" .) || { echo "ERROR build of instr failed"; exit 2; }
  local ov=$BUILD/overlay/$tag
  rm -rf "$ov"; mkdir -p "$ov"
  "$BIN/instr" -repo "$REPO" -out "$ov" -shim "$VERIF/shim/vsched" > "$ov/instr.log" 2>&1 || { cat "$ov/instr.log"; echo "ERROR instrumentation failed"; exit 2; }
  (cd "$VERIF/mc" && go build -modfile="$mod" -tags "verif e3" -overlay "$ov/overlay.json" -o "$BIN/mcs" ./cmd/mcs) || { echo "ERROR build of mcs failed"; exit 2; }
  export VERIF_INSTR_REPORT="$ov/report.json"
}

case "${1:-}" in
  setup)
    build mc
    build_sched
    echo "setup ok"
    ;;
  C20)
    build_sched
    exec "$BIN/mcs" check "$1" "${2:-quick}"
    ;;
  C16)
    build_sched
    # (c) free-running net: same harness bodies, native build under the race detector
    tag=$(echo "$REPO" | md5sum | cut -c1-8)
    (cd "$VERIF/mc" && go build -modfile="$BUILD/go.$tag.mod" -race -tags verif -o "$BIN/mcrace" ./cmd/mcrace) || { echo "ERROR build of mcrace failed"; exit 2; }
    rounds=150; [ "${2:-quick}" = thorough ] && rounds=3000
    OUTD=${VERIF_OUT:-$VERIF}; mkdir -p "$OUTD/replays/C16"
    res=$BUILD/race.$tag.json; log=$OUTD/replays/C16/race-detector-report.txt
    rm -f "$res"
    GORACE="halt_on_error=1" timeout 1200 "$BIN/mcrace" $rounds "${VERIF_SEED:-1}" "$res" 2> "$log"; rc=$?
    if [ $rc -eq 66 ] || grep -q "WARNING: DATA RACE" "$log"; then
      echo "{\"violation\":\"free-running/data-race\",\"replay\":\"$log\",\"rounds\":$rounds}" > "$res"
    elif [ $rc -eq 67 ]; then
      echo "{\"violation\":\"free-running/observation-differs-from-solo-run\",\"replay\":\"$log\",\"rounds\":$rounds}" > "$res"
    elif [ $rc -ne 0 ]; then
      echo "ERROR race pass ended with status $rc"; tail -5 "$log"; exit 2
    else
      rm -f "$log"
    fi
    export VERIF_EXTRA_RESULT="$res"
    exec "$BIN/mcs" check "$1" "${2:-quick}"
    ;;
  replay)
    if grep -qE '"property": *"C(16|20)"' "$2"; then
      build_sched
      exec "$BIN/mcs" replay "$2"
    fi
    build mc
    exec "$BIN/mc" replay "$2"
    ;;
  C19)
    build mc
    tag=$(echo "$REPO" | md5sum | cut -c1-8)
    (cd "$VERIF/mc" && go build -modfile="$BUILD/go.$tag.mod" -tags verif -o "$BIN/gophersat.$tag" github.com/crillab/gophersat) || { echo "ERROR build of gophersat failed"; exit 2; }
    export VERIF_GOPHERSAT_BIN="$BIN/gophersat.$tag"
    rm -rf "$BUILD/cli"
    "$BIN/mc" check "$1" "${2:-quick}"; rc=$?
    rm -rf "$BUILD/cli"
    exit $rc
    ;;
  C*)
    build mc
    exec "$BIN/mc" check "$1" "${2:-quick}"
    ;;
  *)
    echo "usage: $0 <Cxx> quick|thorough | replay <file> | setup"; exit 2;;
esac
