// Package vsched is the concurrency shim used by the schedule explorer (E3).
//
// It is mapped by `go build -overlay` to the virtual import path
// github.com/crillab/gophersat/vsched; the library's goroutine creations, channel
// operations and accesses to shared variables are rewritten (tools/instr) to call it.
//
// Passthrough mode (no scheduler installed): every function performs the native Go
// operation. Controlled mode: every call is a scheduling point of a cooperative
// scheduler in which exactly one logical thread runs at a time; channels are modelled
// inside the scheduler; a vector-clock happens-before detector checks Access calls.
package vsched

import (
	"fmt"
	"reflect"
	"sort"
	"sync"
	"time"
	"unsafe"
)

// ---------------------------------------------------------------------------
// public operations (called by rewritten library code and by harness bodies)

// Go starts f as a new logical thread.
func Go(f func()) {
	s := cur()
	if s == nil {
		go f()
		return
	}
	s.spawn(f)
}

// Send is `ch <- v`.
func Send[T any](ch chan<- T, v T) {
	s := cur()
	if s == nil {
		ch <- v
		return
	}
	s.retain(ch)
	s.send(chanKey(ch), cap(ch), v)
}

// Recv is `v, ok := <-ch`.
func Recv[T any](ch <-chan T) (T, bool) {
	s := cur()
	if s == nil {
		v, ok := <-ch
		return v, ok
	}
	s.retain(ch)
	x, ok := s.recv(chanKey(ch), cap(ch))
	if !ok || x == nil {
		var zero T
		if ok {
			if tv, is := x.(T); is {
				return tv, true
			}
		}
		return zero, ok
	}
	return x.(T), true
}

// Recv1 is `<-ch` used as an expression with one result.
func Recv1[T any](ch <-chan T) T {
	v, _ := Recv(ch)
	return v
}

// Close is `close(ch)`.
func Close[T any](ch chan<- T) {
	s := cur()
	if s == nil {
		close(ch)
		return
	}
	s.retain(ch)
	s.closeCh(chanKey(ch))
}

// Len is `len(ch)` for a channel: the number of buffered values. It is a scheduling point.
func Len[T any](ch chan T) int {
	s := cur()
	if s == nil {
		return len(ch)
	}
	s.retain(ch)
	s.yield()
	k := chanKey(ch)
	if k == 0 {
		return 0
	}
	return len(s.chanOf(k).buf)
}

// Access declares a read or write of shared variable id at this point.
func Access(id int, write bool) {
	if s := cur(); s != nil {
		s.access(id, write)
	}
}

// AccessAt is Access for one dynamic instance of a variable: p is the variable's address, so two
// activations of the same function (each with its own captured local) are different variables.
func AccessAt[T any](id int, p *T, write bool) {
	if s := cur(); s != nil {
		s.retain(p)
		s.access(s.instance(id, uintptr(unsafe.Pointer(p))), write)
	}
}

// Yield is a plain scheduling point.
func Yield() {
	if s := cur(); s != nil {
		s.yield()
	}
}

func chanKey(ch interface{}) uintptr {
	v := reflect.ValueOf(ch)
	if v.IsNil() {
		return 0
	}
	return v.Pointer()
}

// ---------------------------------------------------------------------------
// scheduler

type opKind int

const (
	opStart opKind = iota
	opYield
	opSend
	opRecv
	opClose
	opAccess
	opResume // the operation was completed by a partner (rendezvous); just continue
	opExit
)

type vclock []int

func (a vclock) join(b vclock) vclock {
	for len(a) < len(b) {
		a = append(a, 0)
	}
	for i := range b {
		if b[i] > a[i] {
			a[i] = b[i]
		}
	}
	return a
}

func (a vclock) copy() vclock { return append(vclock{}, a...) }

// before reports whether event (tid,clk) happens before a thread whose clock is a.
func (a vclock) covers(tid, clk int) bool { return tid < len(a) && a[tid] >= clk }

type thread struct {
	id      int
	wake    chan struct{}
	op      opKind
	ch      uintptr
	chCap   int
	val     interface{}
	accID   int
	accW    bool
	done    bool
	vc      vclock
	recvVal interface{}
	recvOK  bool
	recvVC  vclock
	panicV  interface{}
}

type message struct {
	v  interface{}
	vc vclock
}

type channel struct {
	buf     []message
	closed  bool
	closeVC vclock
	recvVCs []vclock // clocks of completed receives (for the k+C rule)
	nsent   int
}

type accessRec struct {
	wTid, wClk int
	hasW       bool
	reads      map[int]int
}

// Event is an observable concurrency event of one execution.
type Event struct {
	Kind   string // race | deadlock | send-on-closed | close-of-closed | thread-panic | hang
	Detail string
}

// Sched is one controlled execution.
type Sched struct {
	mu       sync.Mutex
	threads  []*thread
	chans    map[uintptr]*channel
	acc      map[int]*accessRec
	inst     map[[2]uintptr]int
	keep     []interface{}
	running  *thread
	yielded  chan *thread
	aborting bool
	Events   []Event
	// exploration interface
	Choose func(enabled []int, running int, runningEnabled bool) int // returns index into enabled
	Steps  int
	// StateHash accumulates a hash of (thread ops, channel contents sizes) per step for coverage counts
	OnState func(h uint64)
	MaxSteps int
}

var (
	curMu sync.Mutex
	curS  *Sched
)

func cur() *Sched {
	curMu.Lock()
	s := curS
	curMu.Unlock()
	return s
}

type abortSentinel struct{}

// Run executes body as thread 0 under a fresh controlled scheduler and returns it.
func Run(choose func(enabled []int, running int, runningEnabled bool) int, onState func(uint64), body func()) *Sched {
	s := &Sched{chans: map[uintptr]*channel{}, acc: map[int]*accessRec{}, yielded: make(chan *thread), Choose: choose, OnState: onState, MaxSteps: 200000}
	curMu.Lock()
	curS = s
	curMu.Unlock()
	defer func() {
		curMu.Lock()
		curS = nil
		curMu.Unlock()
	}()
	s.newThread(nil, body)
	s.loop()
	return s
}

func (s *Sched) newThread(parent *thread, f func()) *thread {
	t := &thread{id: len(s.threads), wake: make(chan struct{}), op: opStart}
	if parent != nil {
		parent.vc[parent.id]++
		t.vc = parent.vc.copy()
	}
	for len(t.vc) <= t.id {
		t.vc = append(t.vc, 0)
	}
	t.vc[t.id] = 1
	s.threads = append(s.threads, t)
	go func() {
		<-t.wake
		defer func() {
			if e := recover(); e != nil {
				if _, ok := e.(abortSentinel); !ok {
					t.panicV = e
					s.mu.Lock()
					s.Events = append(s.Events, Event{"thread-panic", fmt.Sprintf("thread %d: %v", t.id, e)})
					s.mu.Unlock()
				}
			}
			t.done = true
			t.op = opExit
			s.yielded <- t
		}()
		if s.aborting {
			panic(abortSentinel{})
		}
		f()
	}()
	return t
}

// park hands control to the scheduler and waits to be chosen.
func (s *Sched) park(t *thread) {
	s.yielded <- t
	<-t.wake
	if s.aborting {
		panic(abortSentinel{})
	}
}

func (s *Sched) me() *thread { return s.running }

func (s *Sched) spawn(f func()) {
	if s.aborting {
		return
	}
	t := s.me()
	s.newThread(t, f)
	t.op = opYield
	s.park(t)
}

func (s *Sched) yield() {
	if s.aborting {
		return
	}
	t := s.me()
	t.op = opYield
	s.park(t)
}

// retain keeps every channel (and, through AccessAt, every instrumented variable) seen by this
// execution reachable until it ends: the model is keyed by address, and an address must not be
// reused by a new object while the execution still remembers the old one.
func (s *Sched) retain(x interface{}) {
	s.keep = append(s.keep, x)
}

// instance maps (static id, address) to a dynamic variable id (numbered in order of first use,
// which is deterministic for a given schedule).
func (s *Sched) instance(id int, addr uintptr) int {
	k := [2]uintptr{uintptr(id), addr}
	if s.inst == nil {
		s.inst = map[[2]uintptr]int{}
	}
	d, ok := s.inst[k]
	if !ok {
		d = 1000*id + len(s.inst) + 1000000
		s.inst[k] = d
	}
	return d
}

func (s *Sched) access(id int, w bool) {
	if s.aborting {
		return
	}
	t := s.me()
	t.op, t.accID, t.accW = opAccess, id, w
	s.park(t)
}

func (s *Sched) send(ch uintptr, c int, v interface{}) {
	if s.aborting {
		return
	}
	t := s.me()
	t.op, t.ch, t.chCap, t.val = opSend, ch, c, v
	s.park(t)
	if t.panicV != nil {
		p := t.panicV
		t.panicV = nil
		panic(p)
	}
}

func (s *Sched) recv(ch uintptr, c int) (interface{}, bool) {
	if s.aborting {
		return nil, false
	}
	t := s.me()
	t.op, t.ch, t.chCap = opRecv, ch, c
	s.park(t)
	return t.recvVal, t.recvOK
}

func (s *Sched) closeCh(ch uintptr) {
	if s.aborting {
		return
	}
	t := s.me()
	t.op, t.ch = opClose, ch
	s.park(t)
	if t.panicV != nil {
		p := t.panicV
		t.panicV = nil
		panic(p)
	}
}

func (s *Sched) chanOf(k uintptr) *channel {
	c := s.chans[k]
	if c == nil {
		c = &channel{}
		s.chans[k] = c
	}
	return c
}

func (s *Sched) parkedOn(kind opKind, ch uintptr, except *thread) *thread {
	for _, t := range s.threads {
		if t != except && !t.done && t != s.running && t.op == kind && t.ch == ch {
			return t
		}
	}
	return nil
}

func (s *Sched) enabled(t *thread) bool {
	if t.done {
		return false
	}
	switch t.op {
	case opSend:
		if t.ch == 0 {
			return false // nil channel blocks for ever
		}
		c := s.chanOf(t.ch)
		if c.closed || len(c.buf) < t.chCap {
			return true
		}
		return t.chCap == 0 && s.parkedOn(opRecv, t.ch, t) != nil
	case opRecv:
		if t.ch == 0 {
			return false
		}
		c := s.chanOf(t.ch)
		if len(c.buf) > 0 || c.closed {
			return true
		}
		return s.parkedOn(opSend, t.ch, t) != nil
	}
	return true
}

func (s *Sched) event(k, d string) {
	s.mu.Lock()
	s.Events = append(s.Events, Event{k, d})
	s.mu.Unlock()
}

// perform applies t's pending operation to the shared state. It returns false if t must not be
// resumed yet (never happens for enabled operations).
func (s *Sched) perform(t *thread) {
	switch t.op {
	case opAccess:
		s.checkAccess(t)
	case opSend:
		c := s.chanOf(t.ch)
		if c.closed {
			s.event("send-on-closed", fmt.Sprintf("thread %d sends on a closed channel", t.id))
			t.panicV = fmt.Errorf("send on closed channel")
			return
		}
		t.vc[t.id]++
		if r := s.parkedOn(opRecv, t.ch, t); r != nil && len(c.buf) == 0 {
			// direct hand-off (rendezvous or waiting receiver)
			r.recvVal, r.recvOK = t.val, true
			r.vc = r.vc.join(t.vc)
			r.vc[r.id]++
			r.op = opResume
			if t.chCap == 0 {
				t.vc = t.vc.join(r.vc) // the receive is synchronized before the completion of the send
			}
			c.recvVCs = append(c.recvVCs, r.vc.copy())
			c.nsent++
			return
		}
		c.buf = append(c.buf, message{t.val, t.vc.copy()})
		c.nsent++
		if k := c.nsent - 1 - t.chCap; k >= 0 && k < len(c.recvVCs) {
			t.vc = t.vc.join(c.recvVCs[k]) // the kth receive is synchronized before the (k+C)th send completes
		}
	case opRecv:
		c := s.chanOf(t.ch)
		t.vc[t.id]++
		if len(c.buf) > 0 {
			m := c.buf[0]
			c.buf = c.buf[1:]
			t.recvVal, t.recvOK = m.v, true
			t.vc = t.vc.join(m.vc)
			c.recvVCs = append(c.recvVCs, t.vc.copy())
			return
		}
		if snd := s.parkedOn(opSend, t.ch, t); snd != nil && !c.closed {
			snd.vc[snd.id]++
			t.recvVal, t.recvOK = snd.val, true
			t.vc = t.vc.join(snd.vc)
			snd.vc = snd.vc.join(t.vc)
			snd.op = opResume
			c.recvVCs = append(c.recvVCs, t.vc.copy())
			c.nsent++
			return
		}
		// closed and empty
		t.recvVal, t.recvOK = nil, false
		t.vc = t.vc.join(c.closeVC)
	case opClose:
		if t.ch == 0 {
			t.panicV = fmt.Errorf("close of nil channel")
			s.event("close-of-nil", fmt.Sprintf("thread %d closes a nil channel", t.id))
			return
		}
		c := s.chanOf(t.ch)
		if c.closed {
			s.event("close-of-closed", fmt.Sprintf("thread %d closes a channel twice", t.id))
			t.panicV = fmt.Errorf("close of closed channel")
			return
		}
		t.vc[t.id]++
		c.closed = true
		c.closeVC = t.vc.copy()
	}
}

func (s *Sched) checkAccess(t *thread) {
	a := s.acc[t.accID]
	if a == nil {
		a = &accessRec{reads: map[int]int{}}
		s.acc[t.accID] = a
	}
	t.vc[t.id]++
	clk := t.vc[t.id]
	if a.hasW && a.wTid != t.id && !t.vc.covers(a.wTid, a.wClk) {
		s.event("race", fmt.Sprintf("shared variable #%d: thread %d %s it while the write by thread %d is not ordered before", t.accID, t.id, rw(t.accW), a.wTid))
	}
	if t.accW {
		var tids []int
		for tid := range a.reads {
			tids = append(tids, tid)
		}
		sort.Ints(tids)
		for _, tid := range tids {
			if tid != t.id && !t.vc.covers(tid, a.reads[tid]) {
				s.event("race", fmt.Sprintf("shared variable #%d: thread %d writes it while the read by thread %d is not ordered before", t.accID, t.id, tid))
			}
		}
		a.hasW, a.wTid, a.wClk = true, t.id, clk
		a.reads = map[int]int{}
	} else {
		a.reads[t.id] = clk
	}
}

func rw(w bool) string {
	if w {
		return "writes"
	}
	return "reads"
}

func (s *Sched) hash() uint64 {
	h := uint64(1469598103934665603)
	mix := func(x uint64) { h = (h ^ x) * 1099511628211 }
	for _, t := range s.threads {
		mix(uint64(t.op) + 16*uint64(b2i(t.done)))
	}
	keys := make([]uintptr, 0, len(s.chans))
	for k := range s.chans {
		keys = append(keys, k)
	}
	sort.Slice(keys, func(i, j int) bool { return keys[i] < keys[j] })
	for i, k := range keys {
		c := s.chans[k]
		mix(uint64(i)<<32 | uint64(len(c.buf))<<1 | uint64(b2i(c.closed)))
	}
	mix(uint64(s.Steps))
	return h
}

func b2i(b bool) int {
	if b {
		return 1
	}
	return 0
}

// loop is the scheduler proper; it runs in the caller's goroutine.
func (s *Sched) loop() {
	var last *thread
	for {
		var en []int
		runningEnabled := false
		lastID := -1
		if last != nil {
			lastID = last.id
			if s.enabled(last) {
				runningEnabled = true
				en = append(en, last.id)
			}
		}
		for _, t := range s.threads {
			if t != last && s.enabled(t) {
				en = append(en, t.id)
			}
		}
		if len(en) == 0 {
			live := 0
			for _, t := range s.threads {
				if !t.done {
					live++
				}
			}
			if live > 0 {
				s.event("deadlock", fmt.Sprintf("%d thread(s) blocked for ever: %s", live, s.describeBlocked()))
				s.abortAll()
			}
			return
		}
		s.Steps++
		if s.Steps > s.MaxSteps {
			s.event("hang", "step budget exceeded")
			s.abortAll()
			return
		}
		if s.OnState != nil {
			s.OnState(s.hash())
		}
		idx := 0
		if len(en) > 1 || true {
			idx = s.Choose(en, lastID, runningEnabled)
		}
		t := s.threads[en[idx]]
		s.perform(t)
		s.running = t
		t.wake <- struct{}{}
		// (a thread that never reaches another scheduling point is caught by the worker's watchdog)
		y := <-s.yielded
		last = y
		if y.done {
			last = nil
		}
		s.running = nil
	}
}

func (s *Sched) describeBlocked() string {
	out := ""
	for _, t := range s.threads {
		if !t.done {
			k := map[opKind]string{opSend: "send", opRecv: "receive"}[t.op]
			out += fmt.Sprintf("[thread %d on %s] ", t.id, k)
		}
	}
	return out
}

// abortAll unwinds every parked thread.
func (s *Sched) abortAll() {
	s.aborting = true
	for _, t := range s.threads {
		if !t.done {
			s.running = t
			t.wake <- struct{}{}
			select {
			case <-s.yielded:
			case <-time.After(10 * time.Second):
			}
		}
	}
}
