#!/usr/bin/env python3
# Refreshes the last column of the per-property table in DESIGN.md §4 from evidence/<id>.json (quick tier).
import json,re
D='/verif/DESIGN.md'
s=open(D).read()
def fmt(n):
    n=float(n)
    if n>=1e6: return '%.1f M'%(n/1e6)
    if n>=1e3: return '%.1f k'%(n/1e3)
    return '%d'%n
def row(m):
    pid=m.group(1)
    try: e=json.load(open('/verif/evidence/%s.json'%pid))
    except Exception: return m.group(0)
    if e.get('tier')!='quick': return m.group(0)
    c=e['coverage']
    txt='%s cases, %s executions'%(fmt(c['cases']),fmt(c['evaluations']))
    if c.get('transitions'): txt+=', %s transitions'%fmt(c['transitions'])
    txt+=', %d s'%round(e['wall_s'])
    cells=m.group(0).rstrip('\n').rstrip('|').split('|')
    cells[-1]=' '+txt+' '
    return '|'.join(cells)+'|\n'
a=s.index('## 4.'); b=s.index('## 5.')
s2=s[:a]+re.sub(r'^\| (C\d\d) \|.*\|\n',row,s[a:b],flags=re.M)+s[b:]
open(D,'w').write(s2)
print('updated' if s2!=s else 'unchanged')
