#!/usr/bin/env python3
# Regenerates /verif/MANIFEST.json from the table below (kept next to the code so the
# manifest always lists exactly the checks that exist).
import json, subprocess
EXPL = "explicit-state bounded model checking: exhaustive enumeration of inputs/histories x heuristic-choice sequences on the real code, each execution judged against a reference model"
SCHED = "stateless model checking: exhaustive DFS over goroutine schedules (preemption bounded) of the real code under a cooperative scheduler, plus vector-clock race detection"
CHECKS = {
 "C01": ("exploration", "every CNF of the families T2/S3/S4/L6/M x entry point x learned-clause limit x heuristic choice list (deviation bounded): verdict, model length and model validity against a truth table; termination by step budget", "§4 C01", EXPL),
 "C17": ("exploration", "every syntax tree with <=4 leaves over ; = -> | & ^ and brace groups rendered with required plus redundant parentheses in three spacing styles, every token string of length <=6 over {a,b,^,&,|,->,=,;,(,)}, and every one-token deletion/insertion of the renderings: a reference recogniser of the documented grammar decides membership and the reading; Parse must agree (truth table of Formula.Eval) or return an error and nil formula; never panic", "§4 C17", EXPL),
 "C02": ("exploration", "every set (size 1-2, plus unit constraints) of cardinality / PB constructor calls over 2-3 variables with weights in [-2..2] and every degree, and decreasing-coefficient constraints under every partial unit assignment, x heuristic choice list: verdict and model against integer arithmetic on the constraints as written", "§4 C02", EXPL),
 "C03": ("exploration", "(constraint set, cost function, entry point) triples: small CNF, cardinality and PB sets x every cost function over <=3-4 distinct variables (either polarity, weights nil / {0..2} / negative through OPB, or none) x {Optimal(nil), Optimal(chan), Minimize} x heuristic choice list (<=1 deviation over the whole optimisation loop): verdict, model validity, reported cost = cost(model) = truth-table minimum, result stream strictly decreasing and ending with the returned result", "§4 C03", EXPL),
 "C04": ("exploration", "(a) every constraint-API instance of <=2 constraints (clause, cardinality with implicit coefficients, PB) and 3 from a reduced alphabet over 3 named variables, hard or soft with weights 1..3, x every permutation of the cost-function order (map-iteration order owned through the verif hook); (b) every WCNF text with <=3 short clauses, all hard/soft splits, weights 1..3, top weights, declared n or n+1, Optimal with/without channel: unsatisfiable iff hard part is; model covers exactly the user's variables; cost = violated soft weight = truth-table minimum", "§4 C04", EXPL),
 "C05": ("exploration", "problems (CNF families incl. declared-but-unused variables and the empty problem, cardinality/PB sets) x {CountModels, Enumerate with/without channel, each also after a Solve} x heuristic choice list (<=1 deviation): count and delivered model multiset against the truth-table model set, channel closed", "§4 C05", EXPL),
 "C07": ("exploration", "CNF problems (dirty T2, all S3 multisets of <=4 clauses, unions of two minimal cores in several orders, conflict-rich seeds) x {MUS, MUSDeletion, MUSInsertion, MUSMaxSat} x heuristic choice list (<=1 deviation over all solver calls of an extraction): error iff satisfiable; result is a sub-multiset, unsatisfiable and minimal by truth table; caller's problem deep-equal afterwards", "§4 C07", EXPL),
 "C08": ("exploration", "(problem, certificate, entry point): every sequence of <=2 certificate lines over the clause alphabet (empty clause, comments, blanks, repeated literals) on T2/S3 problems, genuine solver traces verbatim and with one literal dropped/flipped at every position, Unsat(reader) and UnsatChan; UnsatSubset on the C07 inputs: valid => every line implied (truth table); all lines RUP (independent checker) => accepted; problem restored, second check equal; subset is an unsatisfiable sub-multiset / ErrNotUnsat", "§4 C08", EXPL),
 "C09": ("exploration", "all histories over {Solve, AppendClause(c)} with 1 appended constraint from the full alphabet (clauses with repeats/tautologies/fresh variable, NewCardClause, NewPBClause), 2 from a reduced alphabet under every Solve placement, 3 short clauses, on every small base problem, x heuristic choice list (<=1 deviation): every Solve against the truth table of the conjunction so far; Unsat sticky", "§4 C09", EXPL),
 "C10": ("exploration", "every sequence of <=3 rounds of Assume(list)+Solve with every list of <=2 literals (empty, repeated, contradictory) on every small base problem (with/without units, parse-time facts, parse-time Unsat) x heuristic choice list (<=1 deviation): every round against the truth table of base AND that round's assumptions", "§4 C10", EXPL),
 "C11": ("exploration", "every formula tree of depth <=1 over {a,b,c,true,false, exactly-one groups of 0..6 names} (also under one and two negations), every depth-2 tree over a reduced leaf set, ternary And/Or: bf.Solve returns nil iff the reference truth table is all false, otherwise the returned map satisfies the formula under every completion of omitted names. One genuine defect (exactly-one groups of >4 names at non-positive polarity) is a known finding.", "§4 C11", EXPL),
 "C12": ("exploration", "the C11 trees with exactly-one groups at positive polarity only: the bytes of bf.Dimacs are read by a reference DIMACS reader (header counts, ranges, name comments) and all models of the exported CNF are enumerated: formula true under an assignment of its names iff some export model agrees on the mapped names", "§4 C12", EXPL),
 "C13": ("exploration", "semantic objects x layouts, both enumerated: small CNFs under 10 DIMACS layouts (comments, separators, clause split over lines at every position, two clauses per line, CRLF, no final newline) through solver.ParseCNF and explain.ParseCNF; OPB constraint sets with coefficients of either sign, >= and =, every degree, optional min: line, under 8 layouts; the C04 WCNF texts under 4 layouts: parsing never fails or panics, the parsed problem read structurally has exactly the object's models and costs, Solve/Optimal agree with the truth table", "§4 C13", EXPL),
 "C14": ("exploration", "problems (CNF, pigeonhole as cardinality constraints with one-edit neighbours, cardinality/PB sets, with/without cost function) x {DetectAtMostOne first, not} run with CuttingPlanes on under every heuristic choice list (<=1 deviation incl. forced Luby restarts and learned-PB reductions) and once with it off: every constraint/unit handed out by the cutting-planes learner is implied (truth table, under the cost bound in force), verdict/model/optimum equal to the truth table and to the strategy-off run. Two genuine defects of the learner are recorded as known findings.", "§4 C14", EXPL),
 "C15": ("exploration", "every graph on <=5 vertices as negative binary clauses (all clause orders / repeated edges for small edge sets), with <=2 extra clauses, cliques in every sign pattern, S4 multisets, cardinality/PB problems with two-literal constraints: the Problem after DetectAtMostOne, read structurally, has exactly the input's model set; CountModels agrees", "§4 C15", EXPL),
 "C06": ("exploration", "same space as C01 with certificate generation on: every certificate replayed by an independent RUP checker, every line checked for implication by truth table, differential against the uncertified twin run", "§4 C06", EXPL),
}
NOT_YET = "check under construction in this session (DESIGN.md §7 build order); not claimed until it runs quiet on the unchanged tree"
props = [json.loads(l) for l in open('/verif/properties.jsonl')]
commits = subprocess.run("git -C /repo log --format=%h --grep='^verif hooks' --grep='^hooks' ", shell=True, capture_output=True, text=True).stdout.split()
m = {
 "version": 1,
 "setup_cmd": "./run.sh setup",
 "hooks": {"guard": "verif", "enable": "go build -tags verif (run.sh builds /verif/mc with -tags verif against /repo's working tree through a module replace)",
           "baseline_off_cmd": "cd /repo && GOFLAGS=-mod=mod GOPROXY=off GOSUMDB=off GOTOOLCHAIN=local go test -vet=off -count=1 ./...",
           "source_commits": commits, "add_only": True},
 "engines": [{"name": "mc", "path": "mc/", "serves_properties": sorted(CHECKS),
              "kind_free_text": "hand-written explorer in Go: bounded-exhaustive enumeration of inputs and histories sharded over 16 worker processes (E1), deviation-bounded DFS over the solver's heuristic choices through verif hooks (E2), schedule DFS under a cooperative scheduler (E3), command-line driver (E4)"}],
 "checks": [], "not_applicable": [],
 "notes": "known_findings.jsonl lists genuine defects recorded rather than repaired and the 'fixed:' entries; DESIGN.md explains every check.",
}
for p in props:
    i = p['id']
    if i in CHECKS:
        lvl, text, ref, tech = CHECKS[i]
        m["checks"].append({"property_id": i, "quick_cmd": "./run.sh %s quick" % i, "thorough_cmd": "./run.sh %s thorough" % i,
            "evidence_file": "evidence/%s.json" % i, "replay_cmd_template": "./run.sh replay {path}", "engine": "mc",
            "level_claimed": {"category": lvl, "text": text, "design_ref": "DESIGN.md " + ref},
            "level_note": "trusted base: the reference model in mc/internal (truth tables, integer arithmetic, independent RUP checker), the verif hooks (add-only, force choices through heuristic state only), go toolchain; bounds and what was covered are in the evidence file",
            "technique": tech})
    else:
        m["not_applicable"].append({"property_id": i, "reason": NOT_YET})
json.dump(m, open('/verif/MANIFEST.json', 'w'), indent=1)
print("checks:", [c["property_id"] for c in m["checks"]])
