module instr

go 1.23
