// Command instr rewrites the goroutine creations, channel operations and accesses to shared
// variables of crillab/gophersat into calls to the vsched shim and writes a `go build -overlay`
// description. /repo itself is never modified.
//
//	instr -repo /repo -out /verif/.build/overlay/<tag> -shim /verif/shim/vsched
//
// Rewrites (only where the operand's static type is a channel):
//
//	go f(x)                  -> vsched.Go(func() { f(x) })
//	ch <- v                  -> vsched.Send(ch, v)
//	<-ch / v, ok := <-ch     -> vsched.Recv1(ch) / vsched.Recv(ch)
//	for v := range ch {..}   -> for { v, ok := vsched.Recv(ch); if !ok { break }; .. }
//	close(ch)                -> vsched.Close(ch)
//
// Shared variables: every package-level variable that is assigned, element-assigned, appended to,
// address-taken, or aliased into a local that is written, anywhere in its package; and every local
// variable captured by a `go func` literal and also used outside it. Before each statement that
// mentions such a variable a vsched.Access(id, isWrite) call is inserted, and in functions that
// touch a shared package-level variable a vsched.Yield() is inserted before every statement, so
// that the window between taking a shared buffer and copying the result out can be preempted.
// Functions containing a `select` statement are left untouched (only the Verbose tickers have one).
package main

import (
	"bytes"
	"encoding/json"
	"flag"
	"fmt"
	"go/ast"
	"go/format"
	"go/importer"
	"go/parser"
	"go/token"
	"go/types"
	"os"
	"path/filepath"
	"sort"
	"strings"
)

const shimPath = "github.com/crillab/gophersat/vsched"

type sharedVar struct {
	ID   int    `json:"id"`
	Name string `json:"name"`
	Pkg  string `json:"pkg"`
	Kind string `json:"kind"` // package-level | captured
	Pos  string `json:"pos"`
}

type report struct {
	Shared   []sharedVar    `json:"shared"`
	Counts   map[string]int `json:"counts"`
	Selects  []string       `json:"functions_with_select_left_untouched"`
	Packages []string       `json:"packages"`
}

func main() {
	repo := flag.String("repo", "/repo", "")
	out := flag.String("out", "", "")
	shim := flag.String("shim", "/verif/shim/vsched", "")
	flag.Parse()
	if *out == "" {
		fatal("missing -out")
	}
	os.MkdirAll(*out, 0o755)
	overlay := map[string]string{}
	rep := report{Counts: map[string]int{}}
	nextID := 1
	pkgs := []struct{ dir, path string }{
		{"solver", "github.com/crillab/gophersat/solver"},
		{"explain", "github.com/crillab/gophersat/explain"},
		{"maxsat", "github.com/crillab/gophersat/maxsat"},
		{"bf", "github.com/crillab/gophersat/bf"},
		{"", "github.com/crillab/gophersat"},
	}
	fset := token.NewFileSet()
	imp := &srcImporter{fset: fset, repo: *repo, cache: map[string]*types.Package{}, def: importer.ForCompiler(fset, "source", nil)}
	for _, p := range pkgs {
		dir := filepath.Join(*repo, p.dir)
		files, names := parseDir(fset, dir)
		if len(files) == 0 {
			continue
		}
		info := &types.Info{Types: map[ast.Expr]types.TypeAndValue{}, Uses: map[*ast.Ident]types.Object{}, Defs: map[*ast.Ident]types.Object{}, Selections: map[*ast.SelectorExpr]*types.Selection{}}
		conf := types.Config{Importer: imp, Error: func(error) {}}
		tpkg, _ := conf.Check(p.path, fset, files, info)
		imp.cache[p.path] = tpkg
		rep.Packages = append(rep.Packages, p.path)
		rw := &rewriter{fset: fset, info: info, pkg: tpkg, rep: &rep, nextID: &nextID, shared: map[types.Object]int{}, nameOf: map[int]string{}, resetOnly: map[types.Object]int{}}
		rw.findSharedGlobals(files, p.path)
		// registration of the package-level shared variables (reset before every execution)
		regFile := map[*ast.File][]ast.Stmt{}
		regAll := map[types.Object]int{}
		for o, id := range rw.shared {
			regAll[o] = id
		}
		for o, id := range rw.resetOnly {
			if _, ok := rw.shared[o]; !ok {
				regAll[o] = id
			}
		}
		for o, id := range regAll {
			if !rw.isPkgVar(o) {
				continue
			}
			for _, f := range files {
				if f.Pos() <= o.Pos() && o.Pos() <= f.End() {
					regFile[f] = append(regFile[f], &ast.ExprStmt{X: call("RegisterGlobal", &ast.BasicLit{Kind: token.INT, Value: fmt.Sprint(id)}, &ast.UnaryExpr{Op: token.AND, X: ast.NewIdent(o.Name())})})
				}
			}
		}
		for i, f := range files {
			changed := rw.file(f)
			if regs := regFile[f]; len(regs) > 0 {
				f.Decls = append(f.Decls, &ast.FuncDecl{Name: ast.NewIdent("init"), Type: &ast.FuncType{Params: &ast.FieldList{}}, Body: &ast.BlockStmt{List: regs}})
				rep.Counts["registered_globals"] += len(regs)
				changed = true
			}
			if !changed {
				continue
			}
			addImport(f)
			var buf bytes.Buffer
			if err := format.Node(&buf, fset, f); err != nil {
				fatal("format %s: %v", names[i], err)
			}
			rel := filepath.Join(p.dir, filepath.Base(names[i]))
			dst := filepath.Join(*out, strings.ReplaceAll(rel, string(filepath.Separator), "_"))
			if err := os.WriteFile(dst, buf.Bytes(), 0o644); err != nil {
				fatal("%v", err)
			}
			overlay[names[i]] = dst
		}
	}
	// the shim as a virtual package of the repository's module
	ents, _ := os.ReadDir(*shim)
	for _, e := range ents {
		if strings.HasSuffix(e.Name(), ".go") {
			overlay[filepath.Join(*repo, "vsched", e.Name())] = filepath.Join(*shim, e.Name())
		}
	}
	ob, _ := json.MarshalIndent(map[string]interface{}{"Replace": overlay}, "", " ")
	os.WriteFile(filepath.Join(*out, "overlay.json"), ob, 0o644)
	sort.Slice(rep.Shared, func(i, j int) bool { return rep.Shared[i].ID < rep.Shared[j].ID })
	rb, _ := json.MarshalIndent(rep, "", " ")
	os.WriteFile(filepath.Join(*out, "report.json"), rb, 0o644)
	fmt.Printf("instr: %d files rewritten, %d shared variables, counts %v\n", len(overlay), len(rep.Shared), rep.Counts)
}

func fatal(f string, a ...interface{}) {
	fmt.Fprintf(os.Stderr, "instr: "+f+"\n", a...)
	os.Exit(2)
}

func parseDir(fset *token.FileSet, dir string) ([]*ast.File, []string) {
	ents, err := os.ReadDir(dir)
	if err != nil {
		return nil, nil
	}
	var files []*ast.File
	var names []string
	for _, e := range ents {
		n := e.Name()
		if e.IsDir() || !strings.HasSuffix(n, ".go") || strings.HasSuffix(n, "_test.go") {
			continue
		}
		src, _ := os.ReadFile(filepath.Join(dir, n))
		// honour the verif build tag: checks are built with -tags verif
		if bytes.Contains(src, []byte("//go:build !verif")) {
			continue
		}
		f, err := parser.ParseFile(fset, filepath.Join(dir, n), src, 0)
		if err != nil {
			fatal("parse %s: %v", n, err)
		}
		files = append(files, f)
		names = append(names, filepath.Join(dir, n))
	}
	return files, names
}

// srcImporter resolves the repository's own packages from the ones already checked and everything
// else from GOROOT source.
type srcImporter struct {
	fset  *token.FileSet
	repo  string
	cache map[string]*types.Package
	def   types.Importer
}

func (s *srcImporter) Import(path string) (*types.Package, error) {
	if p, ok := s.cache[path]; ok && p != nil {
		return p, nil
	}
	return s.def.Import(path)
}

func addImport(f *ast.File) {
	for _, im := range f.Imports {
		if im.Path.Value == `"`+shimPath+`"` {
			return
		}
	}
	spec := &ast.ImportSpec{Path: &ast.BasicLit{Kind: token.STRING, Value: `"` + shimPath + `"`}}
	decl := &ast.GenDecl{Tok: token.IMPORT, Specs: []ast.Spec{spec}}
	f.Decls = append([]ast.Decl{decl}, f.Decls...)
	f.Imports = append(f.Imports, spec)
}

// ---------------------------------------------------------------------------

type rewriter struct {
	fset   *token.FileSet
	info   *types.Info
	pkg    *types.Package
	rep    *report
	nextID *int
	shared map[types.Object]int // shared variable -> id
	nameOf map[int]string
	// package-level variables of self-synchronised types (package sync) used through pointer-receiver methods:
	// registered for reset before every execution, not instrumented for the race detector
	resetOnly map[types.Object]int
}

func (r *rewriter) isChan(e ast.Expr) bool {
	tv, ok := r.info.Types[e]
	if !ok || tv.Type == nil {
		return false
	}
	_, is := tv.Type.Underlying().(*types.Chan)
	return is
}

func (r *rewriter) objOf(id *ast.Ident) types.Object {
	if o := r.info.Uses[id]; o != nil {
		return o
	}
	return r.info.Defs[id]
}

func (r *rewriter) isPkgVar(o types.Object) bool {
	v, ok := o.(*types.Var)
	return ok && !v.IsField() && r.pkg != nil && o.Parent() == r.pkg.Scope()
}

func inVerifFile(fset *token.FileSet, pos token.Pos) bool {
	return strings.HasPrefix(filepath.Base(fset.Position(pos).Filename), "verif_")
}

func rootIdent(e ast.Expr) *ast.Ident {
	for {
		switch x := e.(type) {
		case *ast.Ident:
			return x
		case *ast.IndexExpr:
			e = x.X
		case *ast.SliceExpr:
			e = x.X
		case *ast.SelectorExpr:
			e = x.X
		case *ast.StarExpr:
			e = x.X
		case *ast.ParenExpr:
			e = x.X
		default:
			return nil
		}
	}
}

func refLike(t types.Type) bool {
	switch t.Underlying().(type) {
	case *types.Slice, *types.Map, *types.Pointer:
		return true
	}
	return false
}

// isSyncType: a named type of package sync or sync/atomic (possibly behind a pointer).
func isSyncType(t types.Type) bool {
	if p, ok := t.(*types.Pointer); ok {
		t = p.Elem()
	}
	if n, ok := t.(*types.Named); ok && n.Obj() != nil && n.Obj().Pkg() != nil {
		pp := n.Obj().Pkg().Path()
		return pp == "sync" || pp == "sync/atomic"
	}
	return false
}

// findSharedGlobals decides which package-level variables are mutable shared state.
func (r *rewriter) findSharedGlobals(files []*ast.File, pkgPath string) {
	mark := func(o types.Object) {
		if o == nil || !r.isPkgVar(o) || inVerifFile(r.fset, o.Pos()) {
			return
		}
		if _, ok := r.shared[o]; ok {
			return
		}
		id := *r.nextID
		*r.nextID++
		r.shared[o] = id
		r.nameOf[id] = o.Name()
		r.rep.Shared = append(r.rep.Shared, sharedVar{ID: id, Name: o.Name(), Pkg: pkgPath, Kind: "package-level", Pos: r.fset.Position(o.Pos()).String()})
	}
	for _, f := range files {
		if inVerifFile(r.fset, f.Pos()) {
			continue
		}
		for _, d := range f.Decls {
			fd, ok := d.(*ast.FuncDecl)
			if !ok || fd.Body == nil {
				continue
			}
			// locals aliasing a reference-like global, and whether they are written
			alias := map[types.Object]types.Object{} // local -> global
			written := map[types.Object]bool{}
			ast.Inspect(fd.Body, func(n ast.Node) bool {
				switch x := n.(type) {
				case *ast.AssignStmt:
					for i, lhs := range x.Lhs {
						if ri := rootIdent(lhs); ri != nil {
							o := r.objOf(ri)
							if o != nil {
								if r.isPkgVar(o) {
									mark(o) // G = .. / G[i] = .. / G.f = ..
								} else {
									if _, isIdent := lhs.(*ast.Ident); !isIdent || x.Tok != token.DEFINE {
										written[o] = true
									}
								}
							}
						}
						if i < len(x.Rhs) {
							if gi := rootIdent(x.Rhs[i]); gi != nil {
								if g := r.objOf(gi); g != nil && r.isPkgVar(g) && refLike(g.Type()) {
									if li, ok := lhs.(*ast.Ident); ok {
										if lo := r.objOf(li); lo != nil && !r.isPkgVar(lo) {
											alias[lo] = g
										}
									}
								}
							}
						}
					}
				case *ast.IncDecStmt:
					if ri := rootIdent(x.X); ri != nil {
						if o := r.objOf(ri); o != nil {
							if r.isPkgVar(o) {
								mark(o)
							} else {
								written[o] = true
							}
						}
					}
				case *ast.UnaryExpr:
					if x.Op == token.AND {
						if ri := rootIdent(x.X); ri != nil {
							if o := r.objOf(ri); o != nil {
								if r.isPkgVar(o) {
									mark(o)
								} else {
									written[o] = true
								}
							}
						}
					}
				case *ast.CallExpr:
					// G.M(...) with a pointer-receiver method on a package-level variable: the call can change G.
					// Types of package sync (Pool, Map, Once, Mutex, atomic.*) synchronise their own accesses, so they
					// are not race-instrumented, but they ARE state: registered so that every execution starts from
					// their initial value (a warm pool or a done Once would hide the cold-state behaviour).
					if se, ok := x.Fun.(*ast.SelectorExpr); ok {
						if gi, ok := se.X.(*ast.Ident); ok {
							if g := r.objOf(gi); g != nil && r.isPkgVar(g) && !inVerifFile(r.fset, g.Pos()) {
								if sel := r.info.Selections[se]; sel != nil && sel.Kind() == types.MethodVal {
									if fn, ok := sel.Obj().(*types.Func); ok {
										if sig, ok := fn.Type().(*types.Signature); ok && sig.Recv() != nil {
											if _, ptr := sig.Recv().Type().(*types.Pointer); ptr {
												if isSyncType(g.Type()) {
													if _, done := r.resetOnly[g]; !done {
														id := *r.nextID
														*r.nextID++
														r.resetOnly[g] = id
														r.rep.Shared = append(r.rep.Shared, sharedVar{ID: id, Name: g.Name(), Pkg: pkgPath, Kind: "package-level, self-synchronised (reset only)", Pos: r.fset.Position(g.Pos()).String()})
													}
												} else {
													mark(g)
												}
											}
										}
									}
								}
							}
						}
					}
					if fn, ok := x.Fun.(*ast.Ident); ok && (fn.Name == "append" || fn.Name == "copy") && len(x.Args) > 0 {
						if ri := rootIdent(x.Args[0]); ri != nil {
							if o := r.objOf(ri); o != nil {
								if r.isPkgVar(o) && fn.Name == "copy" {
									mark(o)
								} else if !r.isPkgVar(o) && fn.Name == "copy" {
									written[o] = true
								}
							}
						}
					}
				}
				return true
			})
			for l, g := range alias {
				if written[l] {
					mark(g)
				}
			}
		}
	}
}

func (r *rewriter) mentionsShared(n ast.Node) (ids []int, writes map[int]bool) {
	writes = map[int]bool{}
	seen := map[int]bool{}
	ast.Inspect(n, func(m ast.Node) bool {
		if _, ok := m.(*ast.FuncLit); ok {
			return false
		}
		switch x := m.(type) {
		case *ast.BlockStmt:
			return m == n // only the statement's own expressions, nested statements get their own calls
		case *ast.AssignStmt:
			for _, lhs := range x.Lhs {
				if ri := rootIdent(lhs); ri != nil {
					if id, ok := r.shared[r.objOf(ri)]; ok {
						writes[id] = true
					}
				}
			}
			for _, rhs := range x.Rhs { // alias acquisition of a reference-like shared variable
				if ri := rootIdent(rhs); ri != nil {
					if o := r.objOf(ri); o != nil {
						if id, ok := r.shared[o]; ok && refLike(o.Type()) {
							writes[id] = true
						}
					}
				}
			}
		case *ast.IncDecStmt:
			if ri := rootIdent(x.X); ri != nil {
				if id, ok := r.shared[r.objOf(ri)]; ok {
					writes[id] = true
				}
			}
		case *ast.Ident:
			if id, ok := r.shared[r.objOf(x)]; ok && !seen[id] {
				seen[id] = true
				ids = append(ids, id)
			}
		}
		return true
	})
	sort.Ints(ids)
	return
}

func call(fn string, args ...ast.Expr) *ast.CallExpr {
	return &ast.CallExpr{Fun: &ast.SelectorExpr{X: ast.NewIdent("vsched"), Sel: ast.NewIdent(fn)}, Args: args}
}

func hasSelect(n ast.Node) bool {
	found := false
	ast.Inspect(n, func(m ast.Node) bool {
		if _, ok := m.(*ast.SelectStmt); ok {
			found = true
		}
		return !found
	})
	return found
}

// file rewrites one file in place; reports whether anything changed.
func (r *rewriter) file(f *ast.File) bool {
	if inVerifFile(r.fset, f.Pos()) {
		return false
	}
	changed := false
	for _, d := range f.Decls {
		fd, ok := d.(*ast.FuncDecl)
		if !ok || fd.Body == nil {
			continue
		}
		r.findCaptured(fd)
		touchesGlobal := false
		ast.Inspect(fd.Body, func(n ast.Node) bool {
			if id, ok := n.(*ast.Ident); ok {
				if o := r.objOf(id); o != nil && r.isPkgVar(o) {
					if _, sh := r.shared[o]; sh {
						touchesGlobal = true
					}
				}
			}
			return true
		})
		if r.block(fd.Body, touchesGlobal, fd.Name.Name) {
			changed = true
		}
	}
	return changed
}

// findCaptured registers locals captured by `go func` literals and used outside them.
func (r *rewriter) findCaptured(fd *ast.FuncDecl) {
	ast.Inspect(fd.Body, func(n ast.Node) bool {
		gs, ok := n.(*ast.GoStmt)
		if !ok {
			return true
		}
		fl, ok := gs.Call.Fun.(*ast.FuncLit)
		if !ok {
			return true
		}
		inside := map[types.Object]bool{}
		ast.Inspect(fl.Body, func(m ast.Node) bool {
			if id, ok := m.(*ast.Ident); ok {
				if o, isVar := r.objOf(id).(*types.Var); isVar && !o.IsField() && !r.isPkgVar(o) {
					if o.Pos() < fl.Pos() || o.Pos() > fl.End() {
						inside[o] = true
					}
				}
			}
			return true
		})
		// only variables that are assigned inside the literal or after the go statement matter
		assigned := map[types.Object]bool{}
		ast.Inspect(fd.Body, func(m ast.Node) bool {
			switch x := m.(type) {
			case *ast.AssignStmt:
				if x.Pos() > gs.Pos() {
					for _, lhs := range x.Lhs {
						if ri := rootIdent(lhs); ri != nil {
							if o := r.objOf(ri); o != nil && x.Tok != token.DEFINE {
								if _, plain := lhs.(*ast.Ident); plain {
									assigned[o] = true
								}
							}
						}
					}
				}
			case *ast.IncDecStmt:
				if ri, ok := x.X.(*ast.Ident); ok && x.Pos() > gs.Pos() {
					if o := r.objOf(ri); o != nil {
						assigned[o] = true
					}
				}
			}
			return true
		})
		for o := range inside {
			if !assigned[o] {
				delete(inside, o)
			}
		}
		// used outside the literal after the go statement?
		ast.Inspect(fd.Body, func(m ast.Node) bool {
			if m == fl {
				return false
			}
			if id, ok := m.(*ast.Ident); ok && id.Pos() > gs.End() {
				if o := r.objOf(id); o != nil && inside[o] {
					if _, isChanT := o.Type().Underlying().(*types.Chan); isChanT {
						return true // channels are synchronisation objects, not data
					}
					if _, done := r.shared[o]; !done {
						id2 := *r.nextID
						*r.nextID++
						r.shared[o] = id2
						r.nameOf[id2] = o.Name()
						r.rep.Shared = append(r.rep.Shared, sharedVar{ID: id2, Name: o.Name(), Pkg: r.pkg.Path(), Kind: "captured", Pos: r.fset.Position(o.Pos()).String()})
					}
				}
			}
			return true
		})
		return true
	})
}

// block rewrites the statements of b; yields adds a scheduling point before every statement.
func (r *rewriter) block(b *ast.BlockStmt, yields bool, fn string) bool {
	if b == nil {
		return false
	}
	changed := false
	var out []ast.Stmt
	for _, st := range b.List {
		if hasSelect(st) {
			if _, isSel := st.(*ast.SelectStmt); isSel {
				r.rep.Selects = append(r.rep.Selects, fn)
			}
		}
		pre, repl, ch := r.stmt(st, yields, fn)
		if ch {
			changed = true
		}
		out = append(out, pre...)
		out = append(out, repl)
	}
	b.List = out
	return changed
}

func boolLit(b bool) ast.Expr {
	if b {
		return ast.NewIdent("true")
	}
	return ast.NewIdent("false")
}

// stmt returns statements to insert before st, the (possibly replaced) statement, and whether
// anything changed.
func (r *rewriter) stmt(st ast.Stmt, yields bool, fn string) (pre []ast.Stmt, out ast.Stmt, changed bool) {
	out = st
	if _, isSel := st.(*ast.SelectStmt); isSel {
		return nil, st, false // left untouched
	}
	// shared-variable accesses of this statement
	ids, writes := r.mentionsShared(st)
	declares := map[int]bool{} // the statement that declares a variable cannot be preceded by its address
	switch x := st.(type) {
	case *ast.AssignStmt:
		if x.Tok == token.DEFINE {
			for _, lhs := range x.Lhs {
				if li, ok := lhs.(*ast.Ident); ok {
					if o := r.info.Defs[li]; o != nil {
						if id, ok := r.shared[o]; ok {
							declares[id] = true
						}
					}
				}
			}
		}
	case *ast.DeclStmt:
		ast.Inspect(x, func(m ast.Node) bool {
			if li, ok := m.(*ast.Ident); ok {
				if o := r.info.Defs[li]; o != nil {
					if id, ok := r.shared[o]; ok {
						declares[id] = true
					}
				}
			}
			return true
		})
	}
	for _, id := range ids {
		if declares[id] {
			continue
		}
		name := r.nameOf[id]
		pre = append(pre, &ast.ExprStmt{X: call("AccessAt", &ast.BasicLit{Kind: token.INT, Value: fmt.Sprint(id)}, &ast.UnaryExpr{Op: token.AND, X: ast.NewIdent(name)}, boolLit(writes[id]))})
		r.rep.Counts["access"]++
		changed = true
	}
	if yields && len(ids) == 0 {
		switch st.(type) {
		case *ast.DeclStmt, *ast.LabeledStmt, *ast.BranchStmt:
		default:
			pre = append(pre, &ast.ExprStmt{X: call("Yield")})
			r.rep.Counts["yield"]++
			changed = true
		}
	}
	// expressions inside the statement (receives, closes, func literals)
	if r.exprs(st, yields, fn) {
		changed = true
	}
	switch x := st.(type) {
	case *ast.GoStmt:
		body := &ast.BlockStmt{List: []ast.Stmt{&ast.ExprStmt{X: x.Call}}}
		if fl, ok := x.Call.Fun.(*ast.FuncLit); ok && len(x.Call.Args) == 0 {
			body = fl.Body
		}
		out = &ast.ExprStmt{X: call("Go", &ast.FuncLit{Type: &ast.FuncType{Params: &ast.FieldList{}}, Body: body})}
		r.rep.Counts["go"]++
		changed = true
	case *ast.SendStmt:
		if r.isChan(x.Chan) {
			out = &ast.ExprStmt{X: call("Send", x.Chan, x.Value)}
			r.rep.Counts["send"]++
			changed = true
		}
	case *ast.DeferStmt:
		if id, ok := x.Call.Fun.(*ast.Ident); ok && id.Name == "close" && len(x.Call.Args) == 1 && r.isChan(x.Call.Args[0]) {
			x.Call = call("Close", x.Call.Args[0])
			r.rep.Counts["close"]++
			changed = true
		}
	case *ast.RangeStmt:
		if r.isChan(x.X) {
			if r.block(x.Body, yields, fn) {
				changed = true
			}
			okName := ast.NewIdent("vschedOK")
			valName := ast.NewIdent("vschedV")
			// the loop variable is assigned only on a successful receive, like `for v = range ch`
			recv := &ast.AssignStmt{Lhs: []ast.Expr{valName, okName}, Tok: token.DEFINE, Rhs: []ast.Expr{call("Recv", x.X)}}
			brk := &ast.IfStmt{Cond: &ast.UnaryExpr{Op: token.NOT, X: okName}, Body: &ast.BlockStmt{List: []ast.Stmt{&ast.BranchStmt{Tok: token.BREAK}}}}
			body := []ast.Stmt{recv, brk}
			if x.Key != nil {
				if id, isIdent := x.Key.(*ast.Ident); !isIdent || id.Name != "_" {
					body = append(body, &ast.AssignStmt{Lhs: []ast.Expr{x.Key}, Tok: x.Tok, Rhs: []ast.Expr{valName}})
				} else {
					body = append(body, &ast.AssignStmt{Lhs: []ast.Expr{ast.NewIdent("_")}, Tok: token.ASSIGN, Rhs: []ast.Expr{valName}})
				}
			} else {
				body = append(body, &ast.AssignStmt{Lhs: []ast.Expr{ast.NewIdent("_")}, Tok: token.ASSIGN, Rhs: []ast.Expr{valName}})
			}
			body = append(body, x.Body.List...)
			out = &ast.ForStmt{Body: &ast.BlockStmt{List: body}}
			r.rep.Counts["range"]++
			return pre, out, true
		}
	}
	// nested blocks
	switch x := st.(type) {
	case *ast.BlockStmt:
		if r.block(x, yields, fn) {
			changed = true
		}
	case *ast.IfStmt:
		if r.block(x.Body, yields, fn) {
			changed = true
		}
		if x.Else != nil {
			_, e, ch := r.stmtNoPre(x.Else, yields, fn)
			x.Else = e
			changed = changed || ch
		}
	case *ast.ForStmt:
		if r.block(x.Body, yields, fn) {
			changed = true
		}
	case *ast.RangeStmt:
		if r.block(x.Body, yields, fn) {
			changed = true
		}
	case *ast.SwitchStmt:
		for _, c := range x.Body.List {
			cc := c.(*ast.CaseClause)
			b := &ast.BlockStmt{List: cc.Body}
			if r.block(b, yields, fn) {
				changed = true
			}
			cc.Body = b.List
		}
	case *ast.TypeSwitchStmt:
		for _, c := range x.Body.List {
			cc := c.(*ast.CaseClause)
			b := &ast.BlockStmt{List: cc.Body}
			if r.block(b, yields, fn) {
				changed = true
			}
			cc.Body = b.List
		}
	case *ast.LabeledStmt:
		_, s2, ch := r.stmtNoPre(x.Stmt, yields, fn)
		x.Stmt = s2
		changed = changed || ch
	}
	return pre, out, changed
}

// stmtNoPre rewrites a statement that cannot be preceded by inserted statements (else branch).
func (r *rewriter) stmtNoPre(st ast.Stmt, yields bool, fn string) ([]ast.Stmt, ast.Stmt, bool) {
	if b, ok := st.(*ast.BlockStmt); ok {
		return nil, b, r.block(b, yields, fn)
	}
	pre, out, ch := r.stmt(st, yields, fn)
	if len(pre) > 0 {
		return nil, &ast.BlockStmt{List: append(pre, out)}, true
	}
	return nil, out, ch
}

// exprs rewrites receive expressions, close calls and function literals inside one statement
// (without descending into nested statements, which are handled by block).
func (r *rewriter) exprs(st ast.Stmt, yields bool, fn string) bool {
	changed := false
	// v, ok := <-ch
	if as, ok := st.(*ast.AssignStmt); ok && len(as.Lhs) == 2 && len(as.Rhs) == 1 {
		if u, ok := as.Rhs[0].(*ast.UnaryExpr); ok && u.Op == token.ARROW && r.isChan(u.X) {
			as.Rhs[0] = call("Recv", u.X)
			r.rep.Counts["recv"]++
			return true
		}
	}
	var walk func(n ast.Node) bool
	replaceIn := func(e *ast.Expr) {
		if e == nil || *e == nil {
			return
		}
		if u, ok := (*e).(*ast.UnaryExpr); ok && u.Op == token.ARROW && r.isChan(u.X) {
			*e = call("Recv1", u.X)
			r.rep.Counts["recv"]++
			changed = true
			return
		}
		if c, ok := (*e).(*ast.CallExpr); ok {
			if id, ok := c.Fun.(*ast.Ident); ok && id.Name == "len" && len(c.Args) == 1 && r.isChan(c.Args[0]) {
				*e = call("Len", c.Args[0])
				r.rep.Counts["len"]++
				changed = true
				return
			}
			if id, ok := c.Fun.(*ast.Ident); ok && id.Name == "close" && len(c.Args) == 1 && r.isChan(c.Args[0]) {
				*e = call("Close", c.Args[0])
				r.rep.Counts["close"]++
				changed = true
				return
			}
		}
	}
	walk = func(n ast.Node) bool {
		switch x := n.(type) {
		case *ast.BlockStmt:
			return n == ast.Node(st)
		case *ast.FuncLit:
			if !hasSelect(x.Body) {
				if r.block(x.Body, yields, fn+".func") {
					changed = true
				}
			}
			return false
		case *ast.ExprStmt:
			replaceIn(&x.X)
		case *ast.AssignStmt:
			for i := range x.Rhs {
				replaceIn(&x.Rhs[i])
			}
		case *ast.ReturnStmt:
			for i := range x.Results {
				replaceIn(&x.Results[i])
			}
		case *ast.CallExpr:
			for i := range x.Args {
				replaceIn(&x.Args[i])
			}
		case *ast.BinaryExpr:
			replaceIn(&x.X)
			replaceIn(&x.Y)
		case *ast.ParenExpr:
			replaceIn(&x.X)
		case *ast.UnaryExpr:
			if x.Op != token.ARROW {
				replaceIn(&x.X)
			}
		case *ast.IfStmt:
			if x.Init != nil {
				ast.Inspect(x.Init, walk)
			}
			replaceIn(&x.Cond)
			ast.Inspect(x.Cond, walk)
			return false
		case *ast.ForStmt, *ast.RangeStmt, *ast.SwitchStmt, *ast.TypeSwitchStmt, *ast.SelectStmt:
			return n == ast.Node(st) && false
		}
		return true
	}
	ast.Inspect(st, walk)
	return changed
}
