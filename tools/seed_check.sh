#!/bin/bash
# tools/seed_check.sh <name> <check>...   e.g. tools/seed_check.sh C01b C01
# Imports the change left by a sub-agent in /tmp/seed/<name> (if present) into /verif/seeded/<name>,
# confirms it (repo tests pass with it, demo fails with it and passes without it) in a scratch
# worktree of /repo's HEAD, runs the named quick checks against the patched scratch tree, and removes it.
set -u
export GOFLAGS=-mod=mod GOPROXY=off GOSUMDB=off GOTOOLCHAIN=local
name=$1; shift
SD=/verif/seeded/$name
SRC=/tmp/seed/$name
mkdir -p "$SD"
if [ -d "$SRC" ]; then
  git -C "$SRC" diff > "$SD/patch.diff"
  rm -rf "$SD/demo"; mkdir -p "$SD/demo"; cp -r "$SRC/seed_demo/." "$SD/demo/" 2>/dev/null
fi
[ -s "$SD/patch.diff" ] || { echo "no patch for $name"; exit 2; }
W=/tmp/seedchk/$name
rm -rf "$W"; git -C /repo worktree prune; mkdir -p /tmp/seedchk
git -C /repo worktree add -q --detach "$W" HEAD || exit 2
cleanup() { git -C /repo worktree remove --force "$W" 2>/dev/null; git -C /repo worktree prune; }
trap cleanup EXIT
res="${SEED_LOG:-$SD/confirm.log}"; : > "$res"
if ! git -C "$W" apply "$SD/patch.diff" 2>>"$res"; then echo "PATCH DOES NOT APPLY to current /repo HEAD" | tee -a "$res"; exit 3; fi
mkdir -p "$W/seed_demo"; cp -r "$SD/demo/." "$W/seed_demo/"
echo "== repo tests with the change" >> "$res"
(cd "$W" && go build ./... && go test -vet=off -count=1 $(go list ./... | grep -v seed_demo)) >> "$res" 2>&1; t_with=$?
echo "== demo with the change" >> "$res"
RACE=""; grep -qsi "go test -race" "$W"/seed_demo/NOTES.md && RACE="-race"
tags=""; grep -qs "go:build seeddemo" "$W"/seed_demo/*.go && tags="-tags seeddemo"; grep -qs "go:build seed_demo" "$W"/seed_demo/*.go && tags="-tags seed_demo"; grep -qs "go:build verif" "$W"/seed_demo/*.go && tags="-tags verif"
if ls "$W"/seed_demo/*_test.go >/dev/null 2>&1; then demo="go test $tags $RACE -vet=off -count=1 ./seed_demo/"; else demo="go run $tags ./seed_demo/"; fi
(cd "$W" && timeout 600 $demo) >> "$res" 2>&1; d_with=$?
git -C "$W" apply -R "$SD/patch.diff"
echo "== demo without the change" >> "$res"
(cd "$W" && timeout 600 $demo) >> "$res" 2>&1; d_without=$?
git -C "$W" apply "$SD/patch.diff"
echo "suite_with_change_exit=$t_with demo_with_change_exit=$d_with demo_without_change_exit=$d_without" | tee -a "$res"
rm -rf "$W/seed_demo"
for chk in "$@"; do
  out=$(VERIF_OUT=/tmp/seedchk/out VERIF_REPO="$W" timeout 1500 /verif/run.sh "$chk" quick 2>&1); code=$?
  v=$(echo "$out" | grep -c '^VIOLATION')
  echo "check=$chk exit=$code violations=$v" | tee -a "$res"
  echo "$out" | grep -E '^(VIOLATION|SUMMARY|ERROR)' | head -5 | tee -a "$res"
  # keep the replay artefacts (smallest failing case per signature) next to the seed
  n=0
  for rp in $(echo "$out" | grep '^VIOLATION' | sed -n 's/.*replay=\([^ ]*\).*/\1/p' | head -3); do
    [ -z "${SEED_LOG:-}" ] && [ -f "$rp" ] && cp "$rp" "$SD/replay-$chk-$n.$(echo "$rp" | sed 's/.*\.//')" && n=$((n+1))
  done
done
