#!/usr/bin/env python3
# tools/seed_meta.py <name> <property> <caught_by(comma list or none)> <needs text>
import json,sys,re
name,prop,caught,needs=sys.argv[1:5]
log=open('/verif/seeded/%s/confirm.log'%name).read()
m=re.search(r'suite_with_change_exit=(\d+) demo_with_change_exit=(\d+) demo_without_change_exit=(\d+)',log)
checks=re.findall(r'check=(\S+) exit=(\d+) violations=(\d+)',log)
meta={"property":prop,"needs_to_manifest":needs,
 "confirmed":{"repo_test_suite_passes_with_change":m.group(1)=="0","demo_fails_with_change":m.group(2)!="0","demo_passes_without_change":m.group(3)=="0"},
 "ran":["tools/seed_check.sh %s %s   (scratch worktree of /repo HEAD: git apply patch.diff; go test -vet=off -count=1 ./...; demo with and without the change; ./run.sh <check> quick with VERIF_REPO=<scratch>)"%(name," ".join(c[0] for c in checks))],
 "checks":[{"check":c[0],"exit":int(c[1]),"violation_lines":int(c[2])} for c in checks],
 "caught_by":[] if caught=="none" else caught.split(",")}
json.dump(meta,open('/verif/seeded/%s/meta.json'%name,'w'),indent=1)
print(meta["confirmed"],meta["checks"])
