#!/bin/bash
# Re-runs every seeded change against the checks that are recorded as catching it (meta.json caught_by)
# and prints one line per seed. Development aid; takes about an hour.
cd "$(dirname "$0")/.."
for d in seeded/*/; do
  n=$(basename "$d")
  checks=$(python3 -c "
import json,re
m=json.load(open('$d/meta.json'))
cs=[re.match(r'C\d+',c).group(0) for c in m.get('caught_by',[]) if re.match(r'C\d+',c)]
print(' '.join(dict.fromkeys(cs)))")
  [ -z "$checks" ] && checks=$(python3 -c "import json;print(json.load(open('$d/meta.json'))['property'])")
  first=$(echo $checks | cut -d' ' -f1)
  out=$(SEED_LOG=/tmp/seedchk/regress-$n.log tools/seed_check.sh "$n" $first 2>&1 | grep -E "check=|PATCH" | tr '\n' ' ')
  echo "$n: $out"
done
