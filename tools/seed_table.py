#!/usr/bin/env python3
# Regenerates the seed table of DESIGN.md §7: rows already present are kept verbatim, rows for seeds that
# have a meta.json but no row are added (sorted by name).
import json,os,re
D='/verif/DESIGN.md'
s=open(D).read()
m=re.search(r'(\| seed \| what it needs to manifest \| caught by \|\n\|---\|---\|---\|\n)((?:\|.*\n)+)',s)
rows={}
for line in m.group(2).splitlines():
    name=line.split('|')[1].strip()
    rows[name]=line
for name in sorted(os.listdir('/verif/seeded')):
    p='/verif/seeded/%s/meta.json'%name
    if name in rows or not os.path.exists(p): continue
    meta=json.load(open(p))
    need=meta['needs_to_manifest'].replace('|','/')
    note=''
    k=need.find('Missed at first')
    if k>=0:
        note=' — strengthened: '+need[k:].replace('Missed at first','missed at first',1)
        need=need[:k].rstrip(' .')
    if len(need)>260: need=need[:260]
    caught=', '.join(meta.get('caught_by') or []) or ('— ('+meta.get('status','not caught')+')')
    rows[name]='| %s | %s | %s%s |'%(name,need,caught,note)
body='\n'.join(rows[k] for k in sorted(rows))+'\n'
s=s[:m.start(2)]+body+s[m.end(2):]
open(D,'w').write(s)
print(len(rows),'rows')
