#!/bin/bash
# runs every thorough check sequentially (development aid; results are not evidence)
cd "$(dirname "$0")/.."
for id in "$@"; do
  echo "=== $id $(date +%T)"
  VERIF_OUT=${VERIF_OUT:-/var/tmp/verif-thorough} VERIF_BIN=/var/tmp/verif-thorough/bin VERIF_BUILD=/var/tmp/verif-thorough/build timeout 3000 ./run.sh $id thorough 2>&1 | grep -E "^(VIOLATION|KNOWN|SUMMARY|ERROR)" | cut -c1-400
done
